"""Reference model of the reductions' constraint moments, written from the property statements
(plain python/numpy, no fairlearn import).

A dataset is (y in {0,1}^n, group labels g, optional control labels c).  A parity moment conditions on
'events': within each control stratum, all rows (DemographicParity, ErrorRateParity), the rows with y=1
(TruePositiveRateParity), y=0 (FalsePositiveRateParity) or both label classes (EqualizedOdds)."""
from __future__ import annotations

import math

import numpy as np

PARITY = ["DemographicParity", "TruePositiveRateParity", "FalsePositiveRateParity", "EqualizedOdds", "ErrorRateParity"]


def events_of(kind, y, c=None):
    """list (per row) of event keys or None (row belongs to no event)."""
    n = len(y)
    out = []
    for i in range(n):
        st = None if c is None else c[i]
        if kind in ("DemographicParity", "ErrorRateParity"):
            ev = "all"
        elif kind == "TruePositiveRateParity":
            ev = "y=1" if y[i] == 1 else None
        elif kind == "FalsePositiveRateParity":
            ev = "y=0" if y[i] == 0 else None
        elif kind == "EqualizedOdds":
            ev = "y=%d" % int(y[i])
        else:
            raise ValueError(kind)
        out.append(None if ev is None else (st, ev))
    return out


def utility(kind, y, h):
    """u_i: the prediction, or the error indicator y(1-h)+(1-y)h for error-rate parity."""
    y = np.asarray(y, dtype=float)
    h = np.asarray(h, dtype=float)
    if kind == "ErrorRateParity":
        return y * (1 - h) + (1 - y) * h
    return h


def du_dh(kind, y):
    y = np.asarray(y, dtype=float)
    if kind == "ErrorRateParity":
        return 1 - 2 * y
    return np.ones(len(y))


def entries(kind, y, g, c=None):
    """The (sign, event, group) triples that must exist: one '+' and one '-' per occurring (event, group)."""
    ev = events_of(kind, y, c)
    pairs = []
    for i, e in enumerate(ev):
        if e is not None and (e, g[i]) not in pairs:
            pairs.append((e, g[i]))
    return [(s, e, a) for s in ("+", "-") for (e, a) in pairs]


def gamma(kind, y, g, h, ratio=1.0, c=None):
    """dict (sign, event, group) -> r*mean_{e,a}(u) - mean_e(u) ('+') and r*mean_e(u) - mean_{e,a}(u) ('-')."""
    ev = events_of(kind, y, c)
    u = utility(kind, y, h)
    out = {}
    for (s, e, a) in entries(kind, y, g, c):
        rows_e = [i for i in range(len(y)) if ev[i] == e]
        rows_ea = [i for i in rows_e if g[i] == a]
        me = float(np.mean(u[rows_e]))
        mea = float(np.mean(u[rows_ea]))
        out[(s, e, a)] = ratio * mea - me if s == "+" else ratio * me - mea
    return out


def signed_weights(kind, y, g, lam, ratio=1.0, c=None):
    """w_i = -n * d(lambda.gamma)/dh_i, lam: dict (sign,event,group)->multiplier (missing = 0)."""
    n = len(y)
    ev = events_of(kind, y, c)
    d = du_dh(kind, y)
    w = np.zeros(n)
    for (s, e, a) in entries(kind, y, g, c):
        l = float(lam.get((s, e, a), 0.0))
        if l == 0.0:
            continue
        rows_e = [i for i in range(n) if ev[i] == e]
        rows_ea = [i for i in rows_e if g[i] == a]
        for i in rows_e:
            dg = (ratio / len(rows_ea) if g[i] == a else 0.0) - 1.0 / len(rows_e)
            if s == "-":
                dg = ratio / len(rows_e) - (1.0 / len(rows_ea) if g[i] == a else 0.0)
            w[i] += -n * l * dg * d[i]
    return w


def error_rate(y, h, fp=1.0, fn=1.0):
    """cost-weighted (soft) error: (fn * sum_{y>h}(y-h) + fp * sum_{h>y}(h-y)) / n."""
    y = np.asarray(y, dtype=float)
    h = np.asarray(h, dtype=float)
    d = y - h
    return float((fn * d[d > 0].sum() + fp * (-d[d < 0]).sum()) / len(y))


def error_weights(y, fp=1.0, fn=1.0):
    """objective weights -c_fp + (c_fp + c_fn) y (so that err(h) - err(h') = -(1/n) sum w_i (h_i - h'_i) for h in [0,1])."""
    y = np.asarray(y, dtype=float)
    return -fp + (fp + fn) * y


def clip(v, lo, hi):
    return np.minimum(np.maximum(np.asarray(v, dtype=float), lo), hi)


def loss_values(loss, y, h, lo, hi):
    a, b = clip(y, lo, hi), clip(h, lo, hi)
    if loss == "square":
        return (a - b) ** 2
    return np.abs(a - b)


def group_loss(loss, y, g, h, lo, hi):
    lv = loss_values(loss, y, h, lo, hi)
    out = {}
    for a in dict.fromkeys(g):
        rows = [i for i in range(len(y)) if g[i] == a]
        out[a] = float(np.mean(lv[rows]))
    return out


def project_lambda(lam, ratio):
    """ratio == 1: replace each (+,-) pair by the positive/negative part of its difference."""
    if ratio != 1.0:
        return dict(lam)
    out = {}
    for (s, e, a), v in lam.items():
        if s != "+":
            continue
        d = v - lam.get(("-", e, a), 0.0)
        out[("+", e, a)] = max(d, 0.0)
        out[("-", e, a)] = max(-d, 0.0)
    return out
