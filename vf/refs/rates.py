"""Reference models for rate metrics, written from the property statements (no fairlearn import).

Everything is computed by explicit row counting in python floats / numpy."""
from __future__ import annotations

import math

import numpy as np


def _w(n, w):
    return [1.0] * n if w is None else [float(x) for x in w]


def confusion(y_true, y_pred, pos, w=None):
    """Weighted TP, FP, TN, FN with 'positive' meaning == pos."""
    y_true, y_pred = list(y_true), list(y_pred)
    w = _w(len(y_true), w)
    tp = fp = tn = fn = 0.0
    for t, p, wi in zip(y_true, y_pred, w):
        tpos, ppos = (t == pos), (p == pos)
        if tpos and ppos:
            tp += wi
        elif tpos and not ppos:
            fn += wi
        elif (not tpos) and ppos:
            fp += wi
        else:
            tn += wi
    return tp, fp, tn, fn


def _div(a, b):
    return a / b if b > 0 else 0.0


def rates(y_true, y_pred, pos, w=None):
    """dict tpr/fnr/fpr/tnr; a rate whose denominator is empty is 0 (as the property states)."""
    tp, fp, tn, fn = confusion(y_true, y_pred, pos, w)
    return {
        "tpr": _div(tp, tp + fn),
        "fnr": _div(fn, tp + fn),
        "fpr": _div(fp, fp + tn),
        "tnr": _div(tn, fp + tn),
        "has_pos": (tp + fn) > 0,
        "has_neg": (fp + tn) > 0,
    }


def selection_rate(y_pred, pos=1, w=None):
    y_pred = list(y_pred)
    w = _w(len(y_pred), w)
    num = sum(wi for p, wi in zip(y_pred, w) if p == pos)
    return num / sum(w)


def mean_prediction(y_pred, w=None):
    y_pred = [float(p) for p in y_pred]
    w = _w(len(y_pred), w)
    return sum(p * wi for p, wi in zip(y_pred, w)) / sum(w)


def accuracy(y_true, y_pred, w=None):
    y_true, y_pred = list(y_true), list(y_pred)
    w = _w(len(y_true), w)
    return sum(wi for t, p, wi in zip(y_true, y_pred, w) if t == p) / sum(w)


def group_rows(groups):
    """dict group_value -> list of row positions (first-seen order irrelevant)."""
    out = {}
    for i, g in enumerate(groups):
        out.setdefault(g, []).append(i)
    return out


def by_group(fn, groups):
    """Apply fn(list_of_row_positions) per group."""
    return {g: fn(rows) for g, rows in group_rows(groups).items()}


# ---- aggregate algebra of C02/C03, from the statement ------------------------------------------

def agg_difference(gvals, overall, method):
    vals = [v for v in gvals if not _isnan(v)]
    if not vals:
        return math.nan
    if method == "between_groups":
        return _fsub(max(vals), min(vals))
    ds = [abs(_fsub(v, overall)) for v in vals]
    ds = [d for d in ds if not _isnan(d)]  # inf - inf is undefined: skipped like an empty cell
    return max(ds) if ds else math.nan


def agg_ratio(gvals, overall, method):
    """min/max (between_groups) or min over groups of min(r, 1/r), r = g/overall (to_overall).
    IEEE semantics for zero denominators: x/0 -> inf (x>0), 0/0 -> nan; NaN entries are skipped."""
    vals = [v for v in gvals if not _isnan(v)]
    if not vals:
        return math.nan
    if method == "between_groups":
        return _fdiv(min(vals), max(vals))
    rs = []
    for v in vals:
        r = _fdiv(v, overall)
        if _isnan(r):
            continue
        rs.append(_fdiv(1.0, r) if r > 1 else r)
    return min(rs) if rs else math.nan


def _fsub(a, b):
    with np.errstate(all="ignore"):
        return float(np.float64(a) - np.float64(b))


def _fdiv(a, b):
    a, b = float(a), float(b)
    with np.errstate(all="ignore"):
        return float(np.float64(a) / np.float64(b))


def _isnan(v):
    try:
        return math.isnan(v)
    except TypeError:
        return False
