"""Reference model of the CorrelationRemover, from the statement (plain numpy, no fairlearn import)."""
import numpy as np


def split(X, sens_pos):
    others = [j for j in range(X.shape[1]) if j not in sens_pos]
    return X[:, others], X[:, list(sens_pos)], others


def fit(X, sens_pos):
    Z, S, _ = split(np.asarray(X, dtype=float), sens_pos)
    mu = S.mean(axis=0) if S.shape[1] else np.zeros(0)
    Sc = S - mu
    beta = np.linalg.pinv(Sc, rcond=1e-9) @ Z if S.shape[1] else np.zeros((0, Z.shape[1]))
    return mu, beta


def transform(X, sens_pos, mu, beta, alpha):
    Z, S, _ = split(np.asarray(X, dtype=float), sens_pos)
    res = Z - (S - mu) @ beta
    return alpha * res + (1 - alpha) * Z


def regime(X, sens_pos):
    """Conditioning class of the centred sensitive block, from its singular values relative to the largest one:
    'full' (all > 1e-6), 'deficient' (the others are below a tenth of lstsq's default cut-off eps*max(n,k): exactly
    singular and seen as such), 'noisy_deficient' (singular up to centring round-off that exceeds that cut-off),
    'ill_conditioned' (anything in (1e-9, 1e-6]: no stable answer to compare with), 'zero' (no variance at all)."""
    _, S, _ = split(np.asarray(X, dtype=float), sens_pos)
    Sc = S - S.mean(axis=0)
    sv = np.linalg.svd(Sc, compute_uv=False)
    k = S.shape[1]
    if sv.size == 0 or sv[0] == 0:
        return "zero"
    r = np.concatenate([sv / sv[0], np.zeros(max(0, k - sv.size))])
    cut = np.finfo(float).eps * max(Sc.shape)
    if ((r > 1e-9) & (r <= 1e-6)).any():
        return "ill_conditioned"
    if (r > 1e-6).all():
        return "full"
    if ((r >= 0.1 * cut) & (r <= 1e-9)).any():
        return "noisy_deficient"
    return "deficient"
