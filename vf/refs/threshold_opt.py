"""Reference model for ThresholdOptimizer (C04/C05), independent of fairlearn's hull code.

Per group all threshold rules are enumerated (score > t for t = +inf, the midpoints between consecutive distinct
scores, -inf; and score < t when flip), their (constraint, objective) points computed by counting, and the concave
envelope evaluated by brute force over all pairs of points."""
from __future__ import annotations

import math

import numpy as np

SIMPLE = {"selection_rate_parity": "selection_rate", "demographic_parity": "selection_rate",
          "false_positive_rate_parity": "false_positive_rate", "false_negative_rate_parity": "false_negative_rate",
          "true_positive_rate_parity": "true_positive_rate", "true_negative_rate_parity": "true_negative_rate"}
OBJECTIVES_SIMPLE = ["accuracy_score", "balanced_accuracy_score", "selection_rate", "true_positive_rate", "true_negative_rate"]
OBJECTIVES_EO = ["accuracy_score", "balanced_accuracy_score"]


def metric(name, tp, fp, tn, fn):
    pos, neg, n = tp + fn, tn + fp, tp + fp + tn + fn
    if name == "selection_rate":
        return (tp + fp) / n
    if name == "false_positive_rate":
        return fp / neg
    if name == "false_negative_rate":
        return fn / pos
    if name == "true_positive_rate":
        return tp / pos
    if name == "true_negative_rate":
        return tn / neg
    if name == "accuracy_score":
        return (tp + tn) / n
    if name == "balanced_accuracy_score":
        return 0.5 * tp / pos + 0.5 * tn / neg
    raise ValueError(name)


def expected_metric(name, p, y):
    """Expected value of a metric under a randomised rule with positive probabilities p on rows with labels y."""
    p = np.asarray(p, dtype=float)
    y = np.asarray(y, dtype=float)
    tp, fn = float(np.sum(p * y)), float(np.sum((1 - p) * y))
    fp, tn = float(np.sum(p * (1 - y))), float(np.sum((1 - p) * (1 - y)))
    return metric(name, tp, fp, tn, fn)


def group_points(scores, labels, x_metric, y_metric, flip):
    """All (x, y) points of deterministic threshold rules of one group."""
    s = np.asarray(scores, dtype=float)
    y = np.asarray(labels, dtype=int)
    vals = sorted(set(s.tolist()))
    cuts = [math.inf] + [(a + b) / 2.0 for a, b in zip(vals[:-1], vals[1:])] + [-math.inf]
    pts = []
    for t in cuts:
        for op in ([">", "<"] if flip else [">"]):
            pred = (s > t) if op == ">" else (s < t)
            tp = int(np.sum(pred & (y == 1)))
            fp = int(np.sum(pred & (y == 0)))
            fn = int(np.sum(~pred & (y == 1)))
            tn = int(np.sum(~pred & (y == 0)))
            pts.append((metric(x_metric, tp, fp, tn, fn), metric(y_metric, tp, fp, tn, fn)))
    return sorted(set(pts))


def envelope(points, x):
    """Upper concave envelope of the points at x (brute force over all pairs); None when x is not covered."""
    best = None
    tol = 1e-12
    for i, (xi, yi) in enumerate(points):
        if abs(xi - x) <= tol:
            best = yi if best is None else max(best, yi)
        for (xj, yj) in points[i + 1:]:
            lo, hi = (xi, yi), (xj, yj)
            if lo[0] > hi[0]:
                lo, hi = hi, lo
            if lo[0] - tol <= x <= hi[0] + tol and hi[0] - lo[0] > tol:
                t = min(1.0, max(0.0, (x - lo[0]) / (hi[0] - lo[0])))
                v = lo[1] + t * (hi[1] - lo[1])
                best = v if best is None else max(best, v)
    return best


def optimum_simple(groups, constraint, objective, flip, grid_size):
    """groups: dict name -> (scores, labels). Returns (best value, best x, per-x values)."""
    xm = SIMPLE[constraint]
    n = sum(len(v[0]) for v in groups.values())
    pts = {g: group_points(s, l, xm, objective, flip) for g, (s, l) in groups.items()}
    best, bestx, curve = None, None, []
    for k in range(grid_size + 1):
        x = k / grid_size
        tot = 0.0
        ok = True
        for g, (s, l) in groups.items():
            e = envelope(pts[g], x)
            if e is None:
                ok = False
                break
            tot += len(s) / n * e
        if not ok:
            curve.append(None)
            continue
        curve.append(tot)
        if best is None or tot > best:
            best, bestx = tot, x
    return best, bestx, curve


def optimum_eo(groups, objective, flip, grid_size):
    n_pos = sum(int(np.sum(np.asarray(l) == 1)) for _, l in groups.values())
    n_neg = sum(int(np.sum(np.asarray(l) == 0)) for _, l in groups.values())
    n = n_pos + n_neg
    pts = {g: group_points(s, l, "false_positive_rate", "true_positive_rate", flip) for g, (s, l) in groups.items()}
    best, bestx, besty = None, None, None
    for k in range(grid_size + 1):
        x = k / grid_size
        ys = [envelope(pts[g], x) for g in groups]
        if any(v is None for v in ys):
            continue
        ymin = min(ys)
        if objective == "accuracy_score":
            val = (n_pos * ymin + n_neg * (1 - x)) / n
        else:
            val = 0.5 * ymin + 0.5 * (1 - x)
        if best is None or val > best:
            best, bestx, besty = val, x, ymin
    return best, bestx, besty


def best_constant(groups, objective_overall):
    """Objective of the two constant classifiers, computed as the fitted rule's objective is (see C05)."""
    return None
