"""Reference computations for the reductions' saddle-point claims (C08/C09): enumerated hypothesis class,
error/constraint tables, Lagrangian values, true duality gap, constrained optimum by an independent LP."""
from __future__ import annotations

import numpy as np

from vf.refs import moments as RM


class Table:
    """err(h) and gamma(h) for every hypothesis of a finite class on a fixed sample."""

    def __init__(self, kind, ds, ratio, eps, hyps, fp=1.0, fn=1.0):
        self.kind, self.ds, self.ratio, self.eps = kind, ds, ratio, eps
        self.fp, self.fn = float(fp), float(fn)  # costs of the (cost-weighted) error objective
        self.keys = RM.entries(kind, ds.y, ds.g, ds.c)
        self.H = [np.asarray(p, dtype=float) for _, p in hyps]
        self.err = np.array([RM.error_rate(ds.y, h, self.fp, self.fn) for h in self.H])
        self.G = np.array([[RM.gamma(kind, ds.y, ds.g, h, ratio, ds.c)[k] for k in self.keys] for h in self.H])  # |H| x |keys|

    def of(self, pred):
        """(err, gamma vector) of an arbitrary prediction vector."""
        g = RM.gamma(self.kind, self.ds.y, self.ds.g, pred, self.ratio, self.ds.c)
        return RM.error_rate(self.ds.y, pred, self.fp, self.fn), np.array([g[k] for k in self.keys])

    def lam_vec(self, lam_by_key):
        return np.array([float(lam_by_key.get(k, 0.0)) for k in self.keys])

    def min_lagrangian(self, lam):
        vals = self.err + (self.G - self.eps) @ lam
        return float(vals.min())

    def true_gap(self, errQ, gQ, lam, B):
        """duality gap of (Q, lam): max(L(Q,lam) - min_h L(h,lam), max_{|lam'|_1<=B} L(Q,lam') - L(Q,lam))."""
        L = errQ + float((gQ - self.eps) @ lam)
        Lhigh = errQ + B * max(0.0, float((gQ - self.eps).max()))
        return max(L - self.min_lagrangian(lam), Lhigh - L), L, Lhigh

    def constrained_optimum(self):
        """min err(Q') over distributions on H with gamma(Q') <= eps (HiGHS). None if infeasible."""
        from scipy.optimize import linprog

        m = len(self.H)
        res = linprog(self.err, A_ub=self.G.T, b_ub=np.full(len(self.keys), self.eps), A_eq=np.ones((1, m)), b_eq=[1.0],
                      bounds=[(0, 1)] * m, method="highs")
        if not res.success:
            return None
        return float(res.fun)


def project(keys, lam, ratio):
    d = RM.project_lambda({k: float(v) for k, v in zip(keys, lam)}, ratio)
    return np.array([float(d.get(k, 0.0)) for k in keys])
