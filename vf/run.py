"""Parent: shards a property's workload over subprocesses, aggregates, classifies, writes evidence.

usage: python -m vf.run <Cxx> <quick|thorough> [--replay file] [--shards N]
exit 0 held / 1 VIOLATION / 2 INCONCLUSIVE
"""
from __future__ import annotations

import importlib
import json
import os
import subprocess
import sys
import tempfile
import time
from collections import Counter

from vf.common import REPO, VERIF_DIR, jsonable, sig_hash

PY = "/venv/bin/python"
EVIDENCE_SCHEMA = "/root/.vp/EVIDENCE.schema.json"


def child_env():
    env = dict(os.environ)
    deps = os.path.join(VERIF_DIR, ".deps")
    env["PYTHONPATH"] = os.pathsep.join([REPO, VERIF_DIR])
    env["PYTHONDONTWRITEBYTECODE"] = "1"
    env["PYTHONHASHSEED"] = "0"
    env["VERIF_REPO"] = REPO
    for k in ("OMP_NUM_THREADS", "MKL_NUM_THREADS", "OPENBLAS_NUM_THREADS", "NUMEXPR_NUM_THREADS"):
        env[k] = "1"
    env["FAIRLEARN_VERIF"] = "1"
    return env


def load_known():
    p = os.path.join(VERIF_DIR, "known_findings.json")
    if not os.path.exists(p):
        return []
    return json.load(open(p)).get("findings", [])


def validate_evidence(ev) -> list[str]:
    try:
        import jsonschema

        schema = json.load(open(EVIDENCE_SCHEMA))
        errs = [e.message[:200] for e in jsonschema.Draft202012Validator(schema).iter_errors(ev)]
        return errs
    except ImportError:
        errs = []
        cov = ev.get("coverage", {})
        if cov.get("evaluations", 0) < 1:
            errs.append("evaluations < 1")
        if cov.get("distinct_nontrivial", 0) < 2:
            errs.append("distinct_nontrivial < 2")
        if not cov.get("samples"):
            errs.append("no samples")
        return errs


def replay(mod, path):
    from vf.shard import run_one

    rec = json.load(open(path))
    key = rec["key"]
    if isinstance(key, list):
        key = _tuplify(key)
    if hasattr(mod, "setup"):
        mod.setup(rec.get("tier", "quick"), rec["seed"])
    ctx = run_one(mod, rec["cls"], key, rec["seed"], rec.get("tier", "quick"))
    print(json.dumps({"cls": rec["cls"], "key": jsonable(key), "events": dict(ctx.events),
                      "violations": ctx.violations, "notes": ctx.notes}, indent=1)[:6000])
    if ctx.violations:
        known = {k["mech"] for k in load_known() if k.get("property") == mod.ID and k.get("status") == "open"}
        fresh = [v for v in ctx.violations if v["mech"] not in known]
        for v in ctx.violations:
            if v["mech"] in known:
                print("KNOWN-FINDING: property=%s %s" % (mod.ID, v["mech"]))
        if fresh:
            print("VIOLATION property=%s replay=%s" % (mod.ID, os.path.abspath(path)))
            return 1
        return 0
    return 0


def _tuplify(x):
    if isinstance(x, list):
        return tuple(_tuplify(v) for v in x)
    return x


def main():
    args = sys.argv[1:]
    prop, tier = args[0], (args[1] if len(args) > 1 and not args[1].startswith("--") else "quick")
    tier = os.environ.get("VERIF_TIER", tier) if tier not in ("quick", "thorough") else tier
    seed = int(os.environ.get("VERIF_SEED", "0") or 0)
    sys.path.insert(0, REPO)
    mod = importlib.import_module("vf.props." + prop)
    if "--replay" in args:
        sys.exit(replay(mod, args[args.index("--replay") + 1]))
    nshards = int(args[args.index("--shards") + 1]) if "--shards" in args else min(16, os.cpu_count() or 4)
    budget = getattr(mod, "BUDGET", {"quick": 120, "thorough": 1800})
    soft = float(os.environ.get("VERIF_SOFT_S", budget[tier]))
    hard = soft * 1.5 + 180
    t0 = time.time()
    tmp = tempfile.mkdtemp(prefix="vf_%s_" % prop, dir=os.environ.get("VERIF_TMP", None))
    procs = []
    env = child_env()
    for s in range(nshards):
        outf = os.path.join(tmp, "shard%d.json" % s)
        logf = open(os.path.join(tmp, "shard%d.log" % s), "w")
        p = subprocess.Popen([PY, "-m", "vf.shard", prop, tier, str(seed), str(s), str(nshards), outf, str(soft)],
                             cwd=VERIF_DIR, env=env, stdout=logf, stderr=subprocess.STDOUT)
        procs.append((s, p, outf, logf))
    inconclusive = []
    shards = []
    for s, p, outf, logf in procs:
        remaining = max(5.0, hard - (time.time() - t0))
        try:
            rc = p.wait(timeout=remaining)
        except subprocess.TimeoutExpired:
            p.kill()
            p.wait()
            inconclusive.append("shard %d exceeded the hard watchdog (%.0fs)" % (s, hard))
            continue
        finally:
            logf.close()
        if rc != 0 or not os.path.exists(outf):
            tail = open(os.path.join(tmp, "shard%d.log" % s)).read()[-1500:]
            inconclusive.append("shard %d crashed rc=%s: %s" % (s, rc, tail))
            continue
        shards.append(json.load(open(outf)))
    subprocess.run(["rm", "-rf", tmp])

    # ---- aggregate
    events, reach = Counter(), Counter()
    by_class, sigs, samples, violations, truncated = {}, set(), [], [], 0
    planned = done = 0
    for sh in shards:
        planned += sh["planned"]
        done += sh["done"]
        truncated += 1 if sh["truncated"] else 0
        events.update(sh["events"])
        reach.update(sh["reach"])
        sigs.update(sh["sigs"])
        for c, d in sh["by_class"].items():
            b = by_class.setdefault(c, {"cases": 0, "nontrivial": 0, "violating": 0})
            for k in b:
                b[k] += d[k]
        for c, ss in sh["samples"].items():
            if sum(1 for x in samples if x["class"] == c) < 2:
                samples.extend({"class": c, "case": x} for x in ss[:1])
        violations.extend(sh["violations"])
        for he in sh["harness_errors"]:
            inconclusive.append("harness error: %s" % (json.dumps(he)[:1500]))

    known = [k for k in load_known() if k.get("property") == mod.ID and k.get("status") == "open"]
    known_mechs = {k["mech"]: k for k in known}
    known_hit = Counter()
    fresh = []
    for v in violations:
        if v["mech"] in known_mechs:
            known_hit[v["mech"]] += 1
        else:
            fresh.append(v)

    deciding = getattr(mod, "DECIDING", [])
    unreached = [d for d in deciding if events.get(d, 0) == 0]
    if done == 0:
        inconclusive.append("no case was executed")
    if unreached and not fresh:
        inconclusive.append("deciding monitors observed nothing: %s" % unreached)
    min_nt = getattr(mod, "MIN_NONTRIVIAL", 2)
    if len(sigs) < min_nt and not fresh:
        inconclusive.append("only %d distinct non-trivial cases (< %d)" % (len(sigs), min_nt))

    exhaustive_classes = getattr(mod, "EXHAUSTIVE", {}).get(tier, [])
    anchored = getattr(mod, "ANCHORED", [])
    reach_anchor = {a: sum(n for q, n in reach.items() if q.endswith(a)) for a in anchored}
    coverage = {
        "evaluations": int(done),
        "distinct_nontrivial": int(len(sigs)),
        "rule": getattr(mod, "RULE", ""),
        "samples": samples[:12] if samples else [],
        "exhaustive": bool(exhaustive_classes) and truncated == 0 and not inconclusive,
        "exhaustive_subspaces": exhaustive_classes if truncated == 0 else [],
        "planned": int(planned),
        "truncated_shards": truncated,
        "workload_classes": by_class,
        "monitor_events": dict(events),
        "deciding_monitors": {d: int(events.get(d, 0)) for d in deciding},
        "reach_anchored_functions": reach_anchor,
        "reach_top": dict(reach.most_common(25)),
        "known_findings_hit": dict(known_hit),
        "violation_mechanisms": dict(Counter(v["mech"] for v in fresh)),
        "inconclusive_reasons": [s[:400] for s in inconclusive],
    }
    evidence = {
        "property_id": mod.ID,
        "tier": tier,
        "seed": seed,
        "level": "exploration",
        "coverage": coverage,
        "assumptions": getattr(mod, "ASSUMPTIONS", []),
        "wall_s": round(time.time() - t0, 2),
        "violations": len(fresh),
    }
    evdir = os.environ.get("VERIF_EVIDENCE_DIR") or os.path.join(VERIF_DIR, "evidence")
    os.makedirs(evdir, exist_ok=True)
    evpath = os.path.join(evdir, "%s.json" % mod.ID)
    with open(evpath, "w") as f:
        json.dump(jsonable(evidence), f, indent=1, sort_keys=True)
    errs = validate_evidence(json.load(open(evpath)))
    if errs and not fresh:
        inconclusive.append("evidence does not validate: %s" % errs[:3])

    # ---- report
    print("%s %s seed=%d: %d/%d cases, %d distinct non-trivial, events=%s, wall=%.1fs" % (
        mod.ID, tier, seed, done, planned, len(sigs), {d: events.get(d, 0) for d in deciding}, time.time() - t0))
    for k in known:
        if known_hit.get(k["mech"]):
            print("KNOWN-FINDING: property=%s %s [%s; %d witnesses this run]" % (mod.ID, k["what"], k["mech"], known_hit[k["mech"]]))
    if fresh:
        rdir = os.path.join(os.environ.get("VERIF_REPLAY_DIR") or os.path.join(VERIF_DIR, "replays"), mod.ID)
        os.makedirs(rdir, exist_ok=True)
        seen = set()
        for v in fresh:
            if v["mech"] in seen:
                continue
            seen.add(v["mech"])
            if len(seen) > 8:
                break
            path = os.path.join(rdir, "%s-%s.json" % (v["cls"], sig_hash([v["key"], seed])))
            json.dump({"property": mod.ID, "cls": v["cls"], "key": v["key"], "seed": seed, "tier": tier,
                       "mech": v["mech"], "detail": v["detail"]}, open(path, "w"), indent=1)
            print("VIOLATION property=%s replay=%s" % (mod.ID, path))
            print("  mechanism=%s witness=%s" % (v["mech"], json.dumps(v["detail"])[:700]))
        sys.exit(1)
    if inconclusive:
        shown = set()
        for r in inconclusive:
            k = r[-160:]
            if k in shown or len(shown) >= 4:
                continue
            shown.add(k)
            print("INCONCLUSIVE property=%s reason=%s" % (mod.ID, (r[:300] + " ... " + r[-500:] if len(r) > 900 else r).replace("\\n", "\n")))
        sys.exit(2)
    sys.exit(0)


if __name__ == "__main__":
    try:
        main()
    except SystemExit:
        raise
    except BaseException as e:  # noqa: BLE001  an internal error is never a verdict about the property
        import traceback

        traceback.print_exc()
        print("INCONCLUSIVE property=%s reason=internal error in the harness: %r" % (sys.argv[1] if len(sys.argv) > 1 else "?", e))
        sys.exit(2)
