"""Shared helpers: seeded RNG derivation, NaN-aware comparison, JSON conversion, case context."""
from __future__ import annotations

import hashlib
import json
import math
import os
import zlib
from collections import Counter

import numpy as np

VERIF_DIR = os.path.dirname(os.path.dirname(os.path.abspath(__file__)))
REPO = os.path.abspath(os.environ.get("VERIF_REPO", "/repo"))


def crc(s) -> int:
    return zlib.crc32(s.encode() if isinstance(s, str) else s) & 0xFFFFFFFF


def rng_for(seed: int, prop: str, cls: str, key) -> np.random.Generator:
    """All randomness of a case derives from (VERIF_SEED, property, class, key)."""
    ks = json.dumps(key, sort_keys=True, default=str)
    ss = np.random.SeedSequence([int(seed) & 0xFFFFFFFF, int(prop[1:]), crc(cls), crc(ks)])
    return np.random.default_rng(ss)


def sig_hash(obj) -> str:
    return hashlib.sha1(json.dumps(jsonable(obj), sort_keys=True, default=str).encode()).hexdigest()[:14]


def jsonable(o, depth=0):
    """Best-effort conversion of arbitrary witnesses to JSON-able values."""
    import pandas as pd

    if depth > 8:
        return repr(o)[:200]
    if o is None or isinstance(o, (bool, str)):
        return o
    if isinstance(o, (int, np.integer)):
        return int(o)
    if isinstance(o, (float, np.floating)):
        f = float(o)
        if math.isnan(f):
            return "NaN"
        if math.isinf(f):
            return "Infinity" if f > 0 else "-Infinity"
        return f
    if isinstance(o, np.bool_):
        return bool(o)
    if isinstance(o, np.ndarray):
        if o.size > 400:
            return {"ndarray_shape": list(o.shape), "head": jsonable(o.ravel()[:40].tolist(), depth + 1)}
        return jsonable(o.tolist(), depth + 1)
    if isinstance(o, pd.Series):
        return {"Series": {str(k): jsonable(v, depth + 1) for k, v in list(o.items())[:200]}}
    if isinstance(o, pd.DataFrame):
        return {"DataFrame": {str(c): jsonable(o[c], depth + 1) for c in list(o.columns)[:40]}}
    if isinstance(o, dict):
        return {str(k): jsonable(v, depth + 1) for k, v in list(o.items())[:400]}
    if isinstance(o, (list, tuple, set, frozenset)):
        lst = list(o)
        if len(lst) > 400:
            return {"len": len(lst), "head": [jsonable(v, depth + 1) for v in lst[:40]]}
        return [jsonable(v, depth + 1) for v in lst]
    return repr(o)[:300]


def isnan(x) -> bool:
    try:
        return bool(np.isnan(x))
    except (TypeError, ValueError):
        return False


def close(a, b, rtol=1e-9, atol=1e-12) -> bool:
    """NaN-aware scalar closeness: NaN==NaN, inf==inf of same sign."""
    try:
        a = float(a)
        b = float(b)
    except (TypeError, ValueError):
        return False
    if math.isnan(a) or math.isnan(b):
        return math.isnan(a) and math.isnan(b)
    if math.isinf(a) or math.isinf(b):
        return a == b
    return abs(a - b) <= atol + rtol * max(abs(a), abs(b))


def allclose(a, b, rtol=1e-9, atol=1e-12) -> bool:
    a = np.asarray(a, dtype=float)
    b = np.asarray(b, dtype=float)
    if a.shape != b.shape:
        return False
    return bool(np.allclose(a, b, rtol=rtol, atol=atol, equal_nan=True))


def is_scalar_number(x) -> bool:
    """A python/numpy scalar number (0-d arrays and 1-element arrays are NOT scalars)."""
    return isinstance(x, (int, float, np.integer, np.floating, np.bool_, bool)) and not isinstance(x, np.ndarray)


class Ctx:
    """Per-case recorder handed to a property's run_case."""

    def __init__(self, prop, cls, key, seed, tier):
        self.prop, self.cls, self.key, self.seed, self.tier = prop, cls, key, seed, tier
        self.events = Counter()
        self.violations = []
        self.sig = None
        self.nontrivial = False
        self.sample = None
        self.notes = {}

    def ev(self, name, n=1):
        self.events[name] += n

    def violate(self, mech, wit=None, **detail):
        # keep at most a few per case: the first witness is what matters
        if wit:
            detail = {**wit, **detail}
        if len(self.violations) < 6:
            self.violations.append({"mech": mech, "detail": jsonable(detail)})
        else:
            self.events["violations_suppressed_in_case"] += 1

    def check(self, cond, mech, wit=None, **detail) -> bool:
        if not cond:
            self.violate(mech, wit, **detail)
        return bool(cond)

    def mark(self, sig, nontrivial=True, sample=None):
        self.sig = sig
        self.nontrivial = bool(nontrivial)
        if sample is not None:
            self.sample = jsonable(sample)
