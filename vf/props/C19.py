"""C19 Estimator life cycle: fit depends on parameters and data, not on call history."""
from __future__ import annotations

import itertools
import pickle

import numpy as np
import pandas as pd
from sklearn.base import clone

from vf import gen
from vf.common import rng_for
from vf.monitors.learners import ExactLearner
from vf.props import _tolib as TL

ID = "C19"
DECIDING = ["histories_executed", "fit_results_compared_with_fresh", "params_snapshots_compared", "predict_purity_checks", "pickle_round_trips"]
BUDGET = {"quick": 300, "thorough": 2400}
ANCHORED = ["ExponentiatedGradient.fit", "GridSearch.fit", "ThresholdOptimizer.fit", "CorrelationRemover.fit", "_AdversarialFairness.fit",
            "Moment.load_data", "BackendEngine.__init__"]
RULE = ("history enumeration: every operation sequence of length <= 2 plus every length-3 sequence ending in a fit (quick) / every sequence of length <= 4 (thorough) over {fit(D1), fit(D2), predict, pickle "
        "round trip, clone} that begins with a fit or a clone, for each estimator kit (ThresholdOptimizer prefit and not, "
        "ExponentiatedGradient with explicit nu and with nu=None, GridSearch, CorrelationRemover, AdversarialFairnessClassifier and "
        "Regressor with warm_start=False, fixed random_state and list-spec models, also with a Dropout layer; stateful user-supplied layers such as BatchNorm are not used because the documentation says pre-initialised modules are never discarded) and each data variant (D2 of another size; D2 with "
        "another number of columns / groups). After every operation the monitor records the return value of fit, "
        "get_params(deep=False) (primitives by value, objects by identity) and a model fingerprint (_pmf_predict / predict with a "
        "fixed seed / transform on a probe set, fitted multipliers, torch parameters); the history is compared with fresh "
        "estimators: after fit(D) the fingerprint must equal that of a fresh estimator fitted on D, predict must not change it and "
        "must repeat for a repeated seed, a pickle round trip must preserve it, a clone must fit like a fresh estimator. "
        "distinct = distinct (kit, data variant, operation sequence); non-trivial = the sequence contains a fit preceded by another "
        "fit, pickle or clone.")
ASSUMPTIONS = ["deterministic base learners and fixed random_state, so that equal (parameters, data) must give equal models",
               "adversarial estimators are compared through predict/_raw_predict and the predictor's parameters"]
EXHAUSTIVE = {"quick": ["all operation sequences of length <= 2 and all sequences of length 3 that end in a fit, per kit and data variant"],
              "thorough": ["all operation sequences of length <= 4 per kit and data variant"]}
OPS = ["fit1", "fit2", "predict", "pickle", "clone"]
KITS = ["to_prefit", "to_fit", "eg_nu", "eg_nu_none", "grid", "corr", "adv_clf", "adv_reg", "adv_clf_dropout", "corr_df", "grid_custom", "adv_clf_early_stop"]
VARIANTS = ["other_size", "other_width"]


class StopAtStep:
    """stateless early-stopping callback: asks to stop once `step` training steps are done"""

    def __init__(self, step):
        self.step = step

    def __call__(self, model, step=None, **kw):
        return bool(step is not None and step >= self.step)

    def __repr__(self):
        return "StopAtStep(%d)" % self.step

    def __eq__(self, other):
        return isinstance(other, StopAtStep) and other.step == self.step

    def __hash__(self):
        return hash(("StopAtStep", self.step))


def sequences(maxlen):
    out = []
    for L in range(1, maxlen + 1):
        for seq in itertools.product(OPS, repeat=L):
            if seq[0] in ("fit1", "fit2", "clone") and any(o.startswith("fit") for o in seq):
                out.append(list(seq))
    return out


def cases(tier, seed):
    maxlen = 3 if tier == "quick" else 4
    seqs = sequences(maxlen)
    out = []
    for kit in KITS:
        for var in VARIANTS:
            if kit == "grid_custom" and var == "other_width":
                continue  # the user's grid is written for two groups
            use = seqs
            if tier == "quick":
                use = [s for s in seqs if len(s) <= 2 or s[-1].startswith("fit")]
            if var == "other_width":
                use = [s for s in use if "fit1" in s and "fit2" in s]
            out += [("history", [kit, var, s]) for s in use]
    return out


# ------------------------------------------------------------------------------------------------- kits

def _data(kit, var, which, seed):
    """D1 / D2 of a kit: dict with X, y, sf and a probe set (same width as the data)."""
    rng = np.random.default_rng([seed, KITS.index(kit), VARIANTS.index(var), 1 if which == "fit1" else 2])
    n = 18 if which == "fit1" else 26
    k = 2 if (which == "fit1" or var == "other_size") else 3
    d = 3 if (which == "fit1" or var == "other_size") else 4
    g = [["a", "b", "c"][i % k] for i in range(n)]
    y = [(i // k) % 2 for i in range(n)]
    rng.shuffle(y)
    for a in set(g):  # both labels per group
        rows = [i for i in range(n) if g[i] == a]
        y[rows[0]], y[rows[1]] = 0, 1
    X = np.round(rng.normal(size=(n, d)), 3)
    X[:, 0] = rng.integers(0, 4, size=n) + 0.5 * np.asarray(y)
    probe = np.round(rng.normal(size=(7, d)), 3)
    probe[:, 0] = rng.integers(0, 4, size=7)
    return {"X": X, "y": np.asarray(y), "g": np.asarray(g), "probe": probe, "probe_g": np.asarray([g[i % n] for i in range(7)]),
            "yreg": np.round(X[:, 0] / 4.0 + rng.normal(scale=0.1, size=n), 3)}


def make(kit):
    import fairlearn.reductions as red
    from fairlearn.adversarial import AdversarialFairnessClassifier, AdversarialFairnessRegressor
    from fairlearn.postprocessing import ThresholdOptimizer
    from fairlearn.preprocessing import CorrelationRemover
    from sklearn.linear_model import LogisticRegression

    if kit == "to_prefit":
        return ThresholdOptimizer(estimator=TL.ScoreColumn().fit(None), constraints="equalized_odds", objective="accuracy_score", grid_size=20,
                                  prefit=True, predict_method="predict")
    if kit == "to_fit":
        return ThresholdOptimizer(estimator=LogisticRegression(), constraints="demographic_parity", grid_size=50, predict_method="predict_proba")
    if kit == "eg_nu":
        return red.ExponentiatedGradient(ExactLearner("cells"), red.DemographicParity(difference_bound=0.05), eps=0.1, max_iter=8, nu=1e-4)
    if kit == "eg_nu_none":
        return red.ExponentiatedGradient(ExactLearner("cells"), red.EqualizedOdds(difference_bound=0.05), eps=0.1, max_iter=8)
    if kit == "grid":
        return red.GridSearch(ExactLearner("thresholds"), red.TruePositiveRateParity(difference_bound=0.05), grid_size=9, grid_limit=2.0)
    if kit == "grid_custom":
        # a user-supplied grid of multiplier vectors with its own column labels (index = the moment's constraint ids for 2 groups)
        idx = pd.MultiIndex.from_tuples([(s_, "all", g_) for s_ in ("+", "-") for g_ in ("a", "b")], names=["sign", "event", "group_id"])
        grid = pd.DataFrame({"favour_a": [0.0, 1.5, 1.5, 0.0], "unconstrained": [0.0, 0.0, 0.0, 0.0], "favour_b": [1.5, 0.0, 0.0, 1.5]}, index=idx)
        return red.GridSearch(ExactLearner("cells"), red.DemographicParity(difference_bound=0.05), grid=grid)
    if kit == "corr":
        return CorrelationRemover(sensitive_feature_ids=[1], alpha=0.7)
    if kit == "corr_df":
        return CorrelationRemover(sensitive_feature_ids=["c1"], alpha=1.0)
    if kit == "adv_clf":
        return AdversarialFairnessClassifier(backend="torch", predictor_model=[4, "relu"], adversary_model=[3, "relu"], learning_rate=0.05,
                                             epochs=2, batch_size=8, shuffle=False, random_state=11, predictor_optimizer="Adam", adversary_optimizer="SGD")
    if kit == "adv_clf_early_stop":
        # training ended by a callback (early stopping) - fit still returns the estimator and a refit starts from scratch
        return AdversarialFairnessClassifier(backend="torch", predictor_model=[4, "relu"], adversary_model=[3, "relu"], learning_rate=0.05,
                                             epochs=3, batch_size=6, shuffle=False, random_state=7, callbacks=[StopAtStep(3), StopAtStep(50)])
    if kit == "adv_clf_dropout":
        import torch

        return AdversarialFairnessClassifier(backend="torch", predictor_model=[6, torch.nn.Dropout(0.4), "relu"], adversary_model=[3, "relu"], learning_rate=0.05,
                                             epochs=2, batch_size=8, shuffle=False, random_state=3, predictor_optimizer="SGD", adversary_optimizer="SGD")
    if kit == "adv_reg_batchnorm":
        import torch

        return AdversarialFairnessRegressor(backend="torch", predictor_model=[4, torch.nn.BatchNorm1d(4), "relu"], adversary_model=[2], learning_rate=0.05,
                                            epochs=2, batch_size=9, shuffle=False, random_state=5)
    if kit == "adv_reg":
        return AdversarialFairnessRegressor(backend="torch", predictor_model=[3, "relu"], adversary_model=[2], learning_rate=0.05, epochs=2, batch_size=-1,
                                            shuffle=True, random_state=5)
    raise ValueError(kit)


def _as_df(D, which_probe=False):
    """corr_df kit: named columns; the second data set lists the same names in another order."""
    A = D["probe"] if which_probe else D["X"]
    names = ["c%d" % j for j in range(A.shape[1])]
    df = pd.DataFrame(A, columns=names)
    if D["X"].shape[0] != 18:  # D2 (26 rows): reordered columns
        df = df[names[1:] + names[:1]]
    return df


def do_fit(kit, est, D):
    if kit == "corr":
        return est.fit(D["X"])
    if kit == "corr_df":
        return est.fit(_as_df(D))
    if kit.startswith("adv_reg"):
        return est.fit(D["X"], D["yreg"], sensitive_features=D["g"])
    return est.fit(D["X"], D["y"], sensitive_features=D["g"])


def fingerprint(kit, est, D):
    P, pg = D["probe"], D["probe_g"]
    if kit.startswith("to_"):
        return {"pmf": np.asarray(est._pmf_predict(P, sensitive_features=pg)), "pred": np.asarray(est.predict(P, sensitive_features=pg, random_state=0))}
    if kit.startswith("eg"):
        return {"pmf": np.asarray(est._pmf_predict(P)), "pred": np.asarray(est.predict(P, random_state=0)), "weights": np.asarray(est.weights_, float),
                "best_gap": np.asarray([est.best_gap_]), "n_predictors": np.asarray([len(est.predictors_)])}
    if kit in ("grid", "grid_custom"):
        return {"pred": np.asarray(est.predict(P)), "lambda": est.lambda_vecs_.to_numpy(float), "best_idx": np.asarray([est.best_idx_]),
                "objectives": np.asarray(est.objectives_, float)}
    if kit == "corr":
        return {"transform": np.asarray(est.transform(P))}
    if kit == "corr_df":
        return {"transform": np.asarray(est.transform(_as_df(D, True)))}
    fp = {"pred": np.asarray(est.predict(P)).astype(float) if kit.startswith("adv_reg") else np.asarray([repr(v) for v in est.predict(P)]),
          "raw": np.asarray(est._raw_predict(P))}
    be = getattr(est, "backendEngine_", None)
    if be is not None and hasattr(be, "predictor_model"):
        for name, t in be.predictor_model.state_dict().items():  # parameters and buffers (e.g. batch-norm running statistics)
            fp["state:" + name] = t.detach().numpy().astype(float).copy().reshape(-1)
    return fp


def predict_once(kit, est, D):
    P, pg = D["probe"], D["probe_g"]
    if kit.startswith("to_"):
        return np.asarray(est.predict(P, sensitive_features=pg, random_state=3))
    if kit.startswith("eg"):
        return np.asarray(est.predict(P, random_state=3))
    if kit == "corr":
        return np.asarray(est.transform(P))
    if kit == "corr_df":
        return np.asarray(est.transform(_as_df(D, True)))
    return np.asarray(est.predict(P))


def same_fp(a, b, tol=1e-9):
    if set(a) != set(b):
        return False, "keys %s vs %s" % (sorted(a), sorted(b))
    for k in a:
        x, y = a[k], b[k]
        if x.shape != y.shape:
            return False, "%s shape %s vs %s" % (k, x.shape, y.shape)
        if x.dtype.kind in "fiub":
            if not np.allclose(x.astype(float), y.astype(float), rtol=tol, atol=tol, equal_nan=True):
                return False, "%s max abs diff %g" % (k, float(np.nanmax(np.abs(x.astype(float) - y.astype(float)))))
        elif x.tolist() != y.tolist():
            return False, "%s differs" % k
    return True, ""


def params_snapshot(est):
    out = {}
    for k, v in est.get_params(deep=False).items():
        if v is None or isinstance(v, (bool, int, float, str)):
            out[k] = ("value", v)
        elif isinstance(v, (list, tuple)):
            out[k] = ("value", repr(v))
        elif isinstance(v, (pd.DataFrame, pd.Series, np.ndarray)):
            # data-like parameters are compared by content (an in-place rewrite keeps the identity)
            out[k] = ("value", repr(list(map(str, getattr(v, "columns", [])))) + repr(list(map(str, getattr(v, "index", [])))) + repr(np.asarray(v).tolist()))
        else:
            out[k] = ("object", id(v), type(v).__name__)
    return out


_FRESH = {}


def fresh_fp(kit, var, which, seed):
    key = (kit, var, which, seed)
    if key not in _FRESH:
        D = _data(kit, var, which, seed)
        est = make(kit)
        do_fit(kit, est, D)
        _FRESH[key] = fingerprint(kit, est, D)
    return _FRESH[key]


def run_case(cls, key, seed, ctx):
    kit, var, seq = key
    seq = list(seq)
    wit = {"kit": kit, "data_variant": var, "sequence": seq}
    est = make(kit)
    fitted_on = None
    params0 = params_snapshot(est)
    interesting = False
    ctx.ev("histories_executed")
    nu_none = kit == "eg_nu_none"
    for pos, op in enumerate(seq):
        w = dict(wit, failing_operation="%d:%s" % (pos, op), fitted_on_before=fitted_on)
        if op in ("fit1", "fit2"):
            D = _data(kit, var, op, seed)
            had_history = pos > 0
            try:
                ret = do_fit(kit, est, D)
            except Exception as e:  # noqa: BLE001
                mech = "fit_on_used_estimator_raises:%s" % type(est).__name__
                if kit.startswith("corr") and var == "other_width" and fitted_on is not None and fitted_on != op and "expecting" in str(e):
                    mech = "refit_raises:CorrelationRemover:different_number_of_columns"
                ctx.violate(mech, error=repr(e)[:300], wit=w)
                return
            ctx.ev("fit_results_compared_with_fresh")
            ctx.check(ret is est, "fit_does_not_return_the_estimator", returned=type(ret).__name__, wit=w)
            ok, why = same_fp(fingerprint(kit, est, D), fresh_fp(kit, var, op, seed))
            mech = "fit_on_used_estimator_differs_from_fresh_fit:%s" % type(est).__name__
            if nu_none and any(o.startswith("fit") for o in seq[:pos]):
                mech += "[nu=None: the nu computed by the first fit is reused]"
            ctx.check(ok, mech, difference=why, wit=w)
            interesting |= had_history
            fitted_on = op
            snap = params_snapshot(est)
            ctx.ev("params_snapshots_compared")
            for k_, v_ in params0.items():
                if snap.get(k_) != v_:
                    m2 = "constructor_parameter_changed_by_fit:%s.%s" % (type(est).__name__, k_)
                    ctx.violate(m2, before=repr(v_), after=repr(snap.get(k_)), wit=w)
            params0 = snap if nu_none else params0
        elif op == "predict":
            if fitted_on is None:
                continue
            D = _data(kit, var, fitted_on, seed)
            before = fingerprint(kit, est, D)
            a = predict_once(kit, est, D)
            b = predict_once(kit, est, D)
            ctx.ev("predict_purity_checks")
            ctx.check(a.shape == b.shape and a.tolist() == b.tolist(), "repeated_predict_with_same_seed_differs:%s" % type(est).__name__, wit=w)
            ok, why = same_fp(before, fingerprint(kit, est, D))
            ctx.check(ok, "predict_alters_fitted_state:%s" % type(est).__name__, difference=why, wit=w)
            if kit != "corr_df":
                # scoring loops refill one buffer: the same array object with new contents must be answered like a fresh array
                Db = dict(D, probe=np.array(D["probe"], copy=True), probe_g=list(D["probe_g"]) if D.get("probe_g") is not None else None)
                predict_once(kit, est, Db)
                Db["probe"][:] = Db["probe"][::-1].copy()
                if Db["probe_g"] is not None:
                    Db["probe_g"] = Db["probe_g"][::-1]
                r_same_object = predict_once(kit, est, Db)
                r_fresh_object = predict_once(kit, est, dict(Db, probe=np.array(Db["probe"], copy=True)))
                ctx.ev("predict_purity_checks")
                ctx.check(r_same_object.shape == r_fresh_object.shape and r_same_object.tolist() == r_fresh_object.tolist(),
                          "prediction_for_a_refilled_array_object_differs_from_a_fresh_array_with_the_same_contents:%s" % type(est).__name__, wit=w)
        elif op == "pickle":
            if kit.startswith("adv"):
                continue  # the property promises pickling only for ThresholdOptimizer, EG, GridSearch, CorrelationRemover
            before = None
            if fitted_on is not None:
                before = fingerprint(kit, est, _data(kit, var, fitted_on, seed))
            try:
                est2 = pickle.loads(pickle.dumps(est))
            except Exception as e:  # noqa: BLE001
                ctx.violate("pickle_round_trip_fails:%s" % type(est).__name__, error=repr(e)[:300], wit=w)
                return
            ctx.ev("pickle_round_trips")
            if before is not None:
                ok, why = same_fp(before, fingerprint(kit, est2, _data(kit, var, fitted_on, seed)))
                ctx.check(ok, "unpickled_estimator_predicts_differently:%s" % type(est).__name__, difference=why, wit=w)
            s1, s2 = params_snapshot(est), params_snapshot(est2)
            bad = [k_ for k_ in s1 if s1[k_][0] == "value" and s1[k_] != s2.get(k_)]
            ctx.check(not bad, "pickle_changes_constructor_parameters:%s" % type(est).__name__, params=bad, wit=w)
            est = est2
            params0 = params_snapshot(est)
            interesting = True
        elif op == "clone":
            try:
                est = clone(est)
            except Exception as e:  # noqa: BLE001
                ctx.violate("clone_fails:%s" % type(est).__name__, error=repr(e)[:300], wit=w)
                return
            s2 = params_snapshot(est)
            bad = [k_ for k_ in params0 if params0[k_][0] == "value" and params0[k_] != s2.get(k_)]
            ctx.ev("params_snapshots_compared")
            ctx.check(not bad, "clone_changes_constructor_parameters:%s" % type(est).__name__, params=bad, wit=w)
            params0 = s2
            fitted_on = None
            interesting = True
    ctx.mark([kit, var, seq], interesting, sample=wit)
