"""C11 Sample weights mean multiplicity: weight k is k copies of the row."""
from __future__ import annotations

import numpy as np
import pandas as pd

from vf import gen
from vf.common import close, rng_for
from vf.props.C14 import ENCODINGS

ID = "C11"
DECIDING = ["metamorphic_pairs_compared", "frame_cells_compared", "fairness_pairs_compared"]
BUDGET = {"quick": 120, "thorough": 1500}
ANCHORED = ["selection_rate", "mean_prediction", "true_positive_rate", "_construct_annotated_metric_function"]
RULE = ("random datasets n<=25, 1..4 groups (skewed: single-row groups frequent), integer weights 1..5; for each the "
        "weighted call is compared with (a) the same rows repeated weight-many times unweighted, (b) repeated rows with "
        "all-ones weights vs no weights, (c) weights scaled by 0.5, 3, 1e-3, 1e6, 1e-10, 1e-15, 1e12 - for the 4 rates (all label encodings "
        "of C14; integer weights also in uint8/int8/int16/uint16/float32 arrays or Series, with up to 320 rows), selection_rate, mean_prediction, a dict MetricFrame with per-metric sample_params (by_group, overall, "
        "difference, ratio; plus a frame holding the same functions under several keys with different / no weights per key) and the 6 named fairness metrics; result shape (scalar vs array) compared too. "
        "distinct = distinct (n, sorted group sizes, weight multiset, encoding); non-trivial = some weight > 1.")
ASSUMPTIONS = ["weights are positive integers (multiplicity) or positive real multiples of them",
               "comparison tolerance 1e-11 relative (floating-point summation order differs between the two sides)"]
SCALES = [0.5, 3.0, 1e-3, 1e6, 1e-10, 1e-15, 1e12]


def cases(tier, seed):
    k = 700 if tier == "quick" else 40000
    return [("direct", i) for i in range(k)] + [("frame", i) for i in range(k // 2)] + [("fairness", i) for i in range(k // 2)]


def _same(a, b, rtol=1e-11):
    if np.ndim(a) != np.ndim(b) or np.shape(a) != np.shape(b):
        return False
    if np.ndim(a) == 0:
        return close(a, b, rtol, 1e-14)
    return bool(np.allclose(np.asarray(a, float), np.asarray(b, float), rtol=rtol, atol=1e-14, equal_nan=True))


def _data(rng):
    n = int(rng.integers(1, 26))
    if rng.random() < 0.07:
        n = int(rng.integers(60, 320))  # enough rows for weight totals beyond the range of 8-bit weight dtypes
    k = int(rng.integers(1, 5))
    g = gen.skewed_labels(rng, n, k)
    y = rng.integers(0, 2, size=n)
    p = rng.integers(0, 2, size=n)
    w = rng.integers(1, 6, size=n)
    if rng.random() < 0.25:
        w = np.ones(n, dtype=int)
        w[int(rng.integers(0, n))] = int(rng.integers(2, 6))
    rep = np.repeat(np.arange(n), w)
    return n, y, p, g, w, rep


def run_case(cls, key, seed, ctx):
    import fairlearn.metrics as M

    rng = rng_for(seed, ID, cls, key)
    n, y, p, g, w, rep = _data(rng)
    sizes = sorted(np.bincount(g).tolist())
    wk = gen.pick(rng, ["list", "ndarray", "series"])

    def wv(arr):
        return gen.as_vec(np.asarray(arr, dtype=float), wk, rng)

    if cls == "direct":
        e = int(rng.integers(0, len(ENCODINGS)))
        name, neg, pos, pl = ENCODINGS[e]
        yy = [pos if b else neg for b in y]
        pp = [pos if b else neg for b in p]
        yr = [yy[i] for i in rep]
        pr = [pp[i] for i in rep]
        ctx.mark([cls, n, sizes, sorted(w.tolist()), name], bool((w > 1).any()),
                 sample={"encoding": name, "y_true": yy, "y_pred": pp, "weights": w.tolist()})
        kw = {} if pl is None else {"pos_label": pl}
        fns = [(M.true_positive_rate, kw), (M.false_positive_rate, kw), (M.true_negative_rate, kw), (M.false_negative_rate, kw),
               (M.selection_rate, kw)]
        if not isinstance(pos, str):
            fns.append((M.mean_prediction, {}))
        # integer multiplicities stored in a narrow dtype (uint8 / int8 / int16 / float32 counts columns): same meaning
        wdt = gen.pick(rng, [None, None, "int64", "uint8", "int8", "int16", "float32", "uint16"])
        for f, fkw in fns:
            if wdt is not None:
                wn = np.asarray(w).astype(wdt)
                wn = wn if rng.random() < 0.5 else __import__("pandas").Series(wn, index=gen.hostile_index(n, "shuffled", rng))
                a_n = f(yy, pp, sample_weight=wn, **fkw)
                ones_n = np.ones(len(rep)).astype(wdt)
                c_n = f(yr, pr, sample_weight=ones_n, **fkw)
                b_n = f(yr, pr, **fkw)
                ctx.ev("metamorphic_pairs_compared", 2)
                rt = 1e-6 if wdt == "float32" else 1e-11  # single-precision weights may be processed in single precision
                ctx.check(_same(a_n, b_n, rt), "weight_k_differs_from_k_copies:" + f.__name__, enc=name, weight_dtype=wdt, rows=n, y_true=yy[:40], y_pred=pp[:40],
                          weights=w.tolist()[:40], weighted=repr(a_n), repeated=repr(b_n))
                ctx.check(_same(b_n, c_n, rt), "none_differs_from_all_ones:" + f.__name__, enc=name, weight_dtype=wdt, rows=len(rep), none=repr(b_n), ones=repr(c_n))
            if f in (M.selection_rate, M.mean_prediction):
                # these two squeeze their inputs themselves: weights as an (n,1) column or a one-column DataFrame are the same weights
                import pandas as pd

                wcol = np.asarray(w, dtype=float).reshape(-1, 1)
                a_col = f(yy, pp, sample_weight=wcol if rng.random() < 0.5 else pd.DataFrame({"w": np.asarray(w, dtype=float)}), **fkw)
                ctx.ev("metamorphic_pairs_compared")
                ctx.check(_same(a_col, f(yr, pr, **fkw)), "weight_k_differs_from_k_copies:" + f.__name__, enc=name, weight_container="column (n,1)", y_true=yy[:40],
                          y_pred=pp[:40], weights=w.tolist()[:40], weighted=repr(a_col), repeated=repr(f(yr, pr, **fkw)))
            a = f(yy, pp, sample_weight=wv(w), **fkw)
            b = f(yr, pr, **fkw)
            c = f(yr, pr, sample_weight=wv(np.ones(len(rep))), **fkw)
            ctx.ev("metamorphic_pairs_compared", 2)
            ctx.check(_same(a, b), "weight_k_differs_from_k_copies:" + f.__name__, enc=name, y_true=yy, y_pred=pp,
                      weights=w.tolist(), weighted=repr(a), repeated=repr(b))
            ctx.check(_same(b, c), "none_differs_from_all_ones:" + f.__name__, enc=name, y_true=yr, y_pred=pr,
                      none=repr(b), ones=repr(c))
            for s in SCALES:
                d = f(yy, pp, sample_weight=wv(w * s), **fkw)
                ctx.ev("metamorphic_pairs_compared")
                ctx.check(_same(a, d), "weight_scaling_changes_result:" + f.__name__, scale=s, y_true=yy, y_pred=pp,
                          weights=w.tolist(), base=repr(a), scaled=repr(d))
        return
    names = gen.pick(rng, [["a", "b", "c", "d"], [0, 1, 2, 3]])
    gg = [names[i] for i in g]
    gr = [gg[i] for i in rep]
    yl, pl_ = y.tolist(), p.tolist()
    yr, pr = [yl[i] for i in rep], [pl_[i] for i in rep]
    ctx.mark([cls, n, sizes, sorted(w.tolist())], bool((w > 1).any()),
             sample={"y_true": yl, "y_pred": pl_, "groups": gg, "weights": w.tolist()})
    if cls == "frame":
        metrics = {"tpr": M.true_positive_rate, "sel": M.selection_rate, "mp": M.mean_prediction, "fpr": M.false_positive_rate}

        def frame(yt, yp, sf, ww):
            sp = None if ww is None else {k: {"sample_weight": ww} for k in metrics}
            return M.MetricFrame(metrics=metrics, y_true=yt, y_pred=yp, sensitive_features=sf, sample_params=sp)

        A = frame(yl, pl_, gg, wv(w))
        B = frame(yr, pr, gr, None)
        # the caller's nested sample_params dict is reused for a second frame (comparing models): still weight k = k copies
        sp_shared = {k: {"sample_weight": wv(w)} for k in metrics}
        M.MetricFrame(metrics=metrics, y_true=yl, y_pred=[1 - v for v in pl_], sensitive_features=gg, sample_params=sp_shared)
        A_second = M.MetricFrame(metrics=metrics, y_true=yl, y_pred=pl_, sensitive_features=gg, sample_params=sp_shared)
        for m in metrics:
            ctx.ev("frame_cells_compared", len(A.by_group.index) + 1)
            bad = [gi for gi in A.by_group.index if not _same(A_second.by_group.loc[gi, m], B.by_group.loc[gi, m])]
            ctx.check(not bad and _same(A_second.overall[m], B.overall[m]), "weight_k_differs_from_k_copies:second_MetricFrame_from_the_same_sample_params_object:" + m,
                      groups_differing=[repr(b) for b in bad], overall=repr(A_second.overall[m]), expected_overall=repr(B.overall[m]),
                      y_true=yl, y_pred=pl_, groups=gg, weights=w.tolist())
        C = frame(yr, pr, gr, wv(np.ones(len(rep))))
        D = frame(yl, pl_, gg, wv(w * gen.pick(rng, SCALES)))
        for label, X, Y in (("weight_k_differs_from_k_copies", A, B), ("none_differs_from_all_ones", B, C),
                            ("weight_scaling_changes_result", A, D)):
            for gi in X.by_group.index:
                for m in metrics:
                    ctx.ev("frame_cells_compared")
                    a, b = X.by_group.loc[gi, m], Y.by_group.loc[gi, m]
                    ctx.check(_same(a, b), label + ":MetricFrame.by_group:" + m, group=gi, group_rows=int(sum(1 for v in gg if v == gi)),
                              y_true=yl, y_pred=pl_, groups=gg, weights=w.tolist(), left=repr(a), right=repr(b))
            for m in metrics:
                ctx.ev("frame_cells_compared", 3)
                ctx.check(_same(X.overall[m], Y.overall[m]), label + ":MetricFrame.overall:" + m, left=repr(X.overall[m]), right=repr(Y.overall[m]))
                for agg in ("difference", "ratio"):
                    for method in ("between_groups", "to_overall"):
                        a, b = getattr(X, agg)(method=method)[m], getattr(Y, agg)(method=method)[m]
                        ctx.check(_same(a, b), label + ":MetricFrame.%s:%s" % (agg, m), method=method, y_true=yl, y_pred=pl_,
                                  groups=gg, weights=w.tolist(), left=repr(a), right=repr(b))
        # per-metric weights: the same function under several keys, each with its own (or no) weights, must give per key what a
        # frame holding that single weighting gives (which the comparisons above tie to row multiplicity)
        w2 = rng.permutation(w) if rng.random() < 0.7 else rng.integers(1, 6, size=n)
        A2 = frame(yl, pl_, gg, wv(w2))
        U = frame(yl, pl_, gg, None)
        mixed = {"tpr": M.true_positive_rate, "sel": M.selection_rate, "sel_other": M.selection_rate, "tpr_unit": M.true_positive_rate,
                 "mp_other": M.mean_prediction, "sel_unit": M.selection_rate}
        order = [str(k) for k in rng.permutation(list(mixed))]
        E = M.MetricFrame(metrics={k: mixed[k] for k in order}, y_true=yl, y_pred=pl_, sensitive_features=gg,
                          sample_params={k: {"sample_weight": (wv(w2) if k.endswith("_other") else wv(w))} for k in order if not k.endswith("_unit")})
        for key_, (ref, col) in {"tpr": (A, "tpr"), "sel": (A, "sel"), "sel_other": (A2, "sel"), "mp_other": (A2, "mp"), "tpr_unit": (U, "tpr"),
                                 "sel_unit": (U, "sel")}.items():
            ctx.ev("frame_cells_compared", len(E.by_group.index) + 1)
            bad = [gi for gi in E.by_group.index if not _same(E.by_group.loc[gi, key_], ref.by_group.loc[gi, col])]
            ctx.check(not bad and _same(E.overall[key_], ref.overall[col]), "per_metric_weights_mixed_up_between_dict_entries:" + key_,
                      groups_differing=[repr(b) for b in bad], overall=repr(E.overall[key_]), expected_overall=repr(ref.overall[col]),
                      y_true=yl, y_pred=pl_, groups=gg, weights=w.tolist(), other_weights=np.asarray(w2).tolist(), key_order=order)
        return
    if cls == "fairness":
        for fname in ("demographic_parity_difference", "demographic_parity_ratio", "equal_opportunity_difference",
                      "equal_opportunity_ratio", "equalized_odds_difference", "equalized_odds_ratio",
                      "selection_rate_difference", "true_positive_rate_ratio", "false_positive_rate_difference", "accuracy_score_difference"):
            f = getattr(M, fname)
            method = gen.pick(rng, ["between_groups", "to_overall"])
            extra = {"agg": gen.pick(rng, ["worst_case", "mean"])} if fname.startswith("equalized") else {}
            a = f(yl, pl_, sensitive_features=gg, method=method, sample_weight=wv(w), **extra)
            b = f(yr, pr, sensitive_features=gr, method=method, **extra)
            c = f(yr, pr, sensitive_features=gr, method=method, sample_weight=wv(np.ones(len(rep))), **extra)
            d = f(yl, pl_, sensitive_features=gg, method=method, sample_weight=wv(w * gen.pick(rng, SCALES)), **extra)
            ctx.ev("fairness_pairs_compared", 3)
            wit = dict(method=method, y_true=yl, y_pred=pl_, groups=gg, weights=w.tolist(), **extra)
            ctx.check(_same(a, b), "weight_k_differs_from_k_copies:" + fname, weighted=repr(a), repeated=repr(b), wit=wit)
            ctx.check(_same(b, c), "none_differs_from_all_ones:" + fname, none=repr(b), ones=repr(c), wit=wit)
            ctx.check(_same(a, d), "weight_scaling_changes_result:" + fname, base=repr(a), scaled=repr(d), wit=wit)
        return
    raise ValueError(cls)
