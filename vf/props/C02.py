"""C02 MetricFrame aggregates are the documented functions of by_group and overall."""
from __future__ import annotations

import itertools
import math

import numpy as np
import pandas as pd

from vf import gen
from vf.common import close, isnan, rng_for
from vf.refs import rates as R

ID = "C02"
DECIDING = ["aggregate_values_compared", "raise_coerce_pairs_compared", "inequalities_checked", "weighted_mean_inequality_checked"]
BUDGET = {"quick": 120, "thorough": 1500}
ANCHORED = ["DisaggregatedResult.apply_grouping", "DisaggregatedResult.difference", "DisaggregatedResult.ratio", "ratio_sub_one",
            "MetricFrame._populate_results"]
RULE = ("table: a table metric (y_true carries the cell id, y_pred the control stratum) forces prescribed by_group/overall "
        "tables: 1..6 groups x 1..3 strata (0..2 control features, some combinations empty), values drawn from {0, +-small, "
        "+-large, all-equal, random, integers (in fully populated tables also returned as Python ints, giving integer-dtype columns)}; every aggregate x method x errors x callable/dict is compared with the stated "
        "formula per stratum over non-NaN cells. weighted: real sample-weighted means (selection_rate, accuracy, "
        "mean_prediction) for to_overall <= between_groups. An icontract postcondition on MetricFrame.__init__ re-checks the stated "
        "inequalities on every frame built during the workload and while the repository's metric tests run (class repo_tests). distinct = distinct (#groups, #strata, #control features, form, "
        "value class, sign pattern, zero pattern); non-trivial = >=2 non-empty groups with >=2 distinct values, or an "
        "explicit zero-denominator / all-equal class.")
ASSUMPTIONS = ["scalar metrics", "0/0 follows IEEE: NaN or skipped", "for negative ratios r<0 (mixed-sign tables) the statement's "
               "min(r,1/r) and the documented 'ratio below 1' reading differ; either value is accepted there, equality is "
               "required everywhere else", "'ratio <= 1' for between_groups is asserted only where it follows from min/max (group_max > 0)"]
METHODS = ["between_groups", "to_overall"]
ERRORS = ["raise", "coerce"]


def setup(tier, seed):
    from vf.monitors import contracts

    contracts.attach()


def cases(tier, seed):
    k = 700 if tier == "quick" else 30000
    tests = ["test/unit/metrics/test_metricframe_aggregates.py"] if tier == "quick" else ["test/unit/metrics"]
    return [("table", i) for i in range(k)] + [("weighted", i) for i in range(k // 2)] + [("repo_tests", tests)]


def draw_values(rng, m, vclass):
    if vclass == "random":
        return rng.normal(size=m).round(3)
    if vclass == "unit":
        return rng.random(m).round(3)
    if vclass == "equal":
        return np.full(m, float(gen.pick(rng, [0.0, 0.5, -2.0, 3.0])))
    if vclass == "zeros_mixed":
        v = rng.random(m).round(2)
        v[rng.random(m) < 0.5] = 0.0
        return v
    if vclass == "all_zero":
        return np.zeros(m)
    if vclass == "negative":
        return -rng.uniform(0.1, 5, size=m).round(3)
    if vclass == "magnitudes":
        return rng.choice([1e-12, 1e-6, 1.0, 1e6, 1e12], size=m) * rng.choice([1.0, 1.0, -1.0], size=m)
    if vclass == "ints":
        return rng.integers(-3, 4, size=m).astype(float)
    if vclass == "nonpos_zero":
        # all values <= 0 and the maximum is exactly 0: group_min / group_max = x / 0 = -inf
        v = 0.0 - rng.integers(0, 4, size=m).astype(float)
        v[int(rng.integers(0, m))] = 0.0
        return np.where(v == 0, 0.0, v)  # no negative zeros: the sign of x/0 would depend on which zero is the maximum
    if vclass == "with_inf":
        v = rng.random(m).round(3) + 0.1
        v[int(rng.integers(0, m))] = float(gen.pick(rng, [np.inf, -np.inf]))
        return v
    raise ValueError(vclass)


VCLASSES = ["random", "unit", "equal", "zeros_mixed", "all_zero", "negative", "magnitudes", "ints", "nonpos_zero", "with_inf"]


class TableMetric:
    def __init__(self, name, cell_values, overall_values, as_int=False):
        self.__name__ = name
        self.cell, self.overall = cell_values, overall_values
        self.calls = 0
        self.conv = (lambda v: int(round(float(v)))) if as_int else float  # int-valued metrics (counts) give integer-dtype columns

    def __call__(self, y_true, y_pred):
        self.calls += 1
        cells = sorted(set(int(v) for v in y_true))
        if len(cells) == 1:
            return self.conv(self.cell[cells[0]])
        strata = sorted(set(int(v) for v in y_pred))
        if len(strata) == 1:
            return self.conv(self.overall[strata[0]])
        return self.conv(self.overall[-1])


def run_case(cls, key, seed, ctx):
    from fairlearn.metrics import MetricFrame

    from vf.monitors import contracts

    if cls == "repo_tests":
        return contracts.repo_tests_case(ctx, "C02:", key)
    rng = rng_for(seed, ID, cls, key)
    if cls == "weighted":
        run_weighted(ctx, rng, MetricFrame)
        return contracts.flush_into(ctx, "C02:")
    nctl = int(gen.pick(rng, [0, 0, 1, 1, 2]))
    ng = int(rng.integers(1, 7))
    nsf = 1 if ng < 4 or rng.random() < 0.6 else 2
    # sensitive groups: either one feature with ng values or two features (product may have empty combos)
    if nsf == 1:
        sgroups = [("s%d" % i,) for i in range(ng)]
    else:
        a, b = (2, 3) if ng >= 5 else (2, 2)
        allc = list(itertools.product(["p%d" % i for i in range(a)], ["q%d" % i for i in range(b)]))
        keep = rng.permutation(len(allc))[: max(2, min(ng, len(allc)))]
        sgroups = [allc[i] for i in sorted(keep)]
    if nctl == 0:
        strata = [()]
    elif nctl == 1:
        strata = [("c%d" % i,) for i in range(int(rng.integers(1, 4)))]
    else:
        allc = list(itertools.product(["c0", "c1"], ["d0", "d1"]))
        keep = rng.permutation(4)[: int(rng.integers(2, 5))]
        strata = [allc[i] for i in sorted(keep)]
    # which (stratum, group) cells are populated (fully populated tables keep integer-valued metrics in integer dtype)
    full_table = bool(rng.random() < 0.3)
    if full_table and nsf == 2:
        sgroups = list(itertools.product(sorted({g[0] for g in sgroups}), sorted({g[1] for g in sgroups})))
    if full_table and nctl == 2:
        strata = list(itertools.product(sorted({t[0] for t in strata}), sorted({t[1] for t in strata})))
    cells = []
    for si, st in enumerate(strata):
        present = [g for g in sgroups if full_table or rng.random() < 0.8]
        if not present:
            present = [sgroups[int(rng.integers(0, len(sgroups)))]]
        for g in present:
            cells.append((si, st, g))
    form = gen.pick(rng, ["callable", "dict1", "dict2"])
    nmet = 2 if form == "dict2" else 1
    vclass = [gen.pick(rng, VCLASSES) for _ in range(nmet)]
    as_int = [full_table and vc == "ints" and rng.random() < 0.8 for vc in vclass]
    if nmet == 2:
        as_int[0] = False  # metric 0 of a two-metric dict may get NaN cells
    tables = []
    for j in range(nmet):
        cv = draw_values(rng, len(cells), vclass[j])
        if j == 0 and nmet == 2 and len(cells) >= 3 and rng.random() < 0.35:
            # a metric that is undefined (NaN) on some NON-EMPTY groups: those cells are skipped for THIS metric only
            k_nan = int(rng.integers(1, max(2, len(cells) // 2)))
            cv[rng.permutation(len(cells))[:k_nan]] = np.nan
        ov = {}
        for si in range(len(strata)):
            members = [ci for ci, c in enumerate(cells) if c[0] == si]
            if len(members) == 1:
                ov[si] = cv[members[0]]
            else:
                oc = gen.pick(rng, ["inside", "zero", "outside", "same_class"])
                vals = cv[members]
                if oc == "inside":
                    ov[si] = float(np.nanmean(vals)) if np.isfinite(vals).any() else 0.5
                elif oc == "zero":
                    ov[si] = 0.0
                elif oc == "outside":
                    ov[si] = float(np.nanmax(np.where(np.isfinite(vals), vals, np.nan)) + abs(rng.normal()) + 0.5) if np.isfinite(vals).any() else 1.5
                else:
                    ov[si] = float(draw_values(rng, 1, vclass[j])[0])
                if as_int[j]:
                    ov[si] = float(int(round(ov[si])))
        ov[-1] = float("nan")  # never requested: overall is always evaluated within one stratum
        tables.append((cv, ov))
    # rows: 1..3 per cell
    y_true, y_pred, sf_rows, cf_rows = [], [], [], []
    for ci, (si, st, g) in enumerate(cells):
        for _ in range(int(rng.integers(1, 4))):
            y_true.append(ci)
            y_pred.append(si)
            sf_rows.append(g)
            cf_rows.append(st)
    perm = rng.permutation(len(y_true))
    y_true = [y_true[i] for i in perm]
    y_pred = [y_pred[i] for i in perm]
    sf_rows = [sf_rows[i] for i in perm]
    cf_rows = [cf_rows[i] for i in perm]
    sf = pd.DataFrame(sf_rows, columns=["sfa", "sfb"][: len(sgroups[0])])
    cf = None if nctl == 0 else pd.DataFrame(cf_rows, columns=["cfa", "cfb"][:nctl])
    mets = [TableMetric("tm%d" % j, tables[j][0], tables[j][1], as_int=as_int[j]) for j in range(nmet)]
    metrics = mets[0] if form == "callable" else {m.__name__: m for m in mets}
    mf = MetricFrame(metrics=metrics, y_true=y_true, y_pred=y_pred, sensitive_features=sf, control_features=cf)
    n_groups_max = max(sum(1 for c in cells if c[0] == si) for si in range(len(strata)))
    for j in range(nmet):
        cv, ov = tables[j]
        signs = (bool((cv < 0).any()), bool((cv > 0).any()), bool((cv == 0).any()))
        distinct_vals = len(set(np.round(cv, 12).tolist()))
        nontrivial = (n_groups_max >= 2 and distinct_vals >= 2) or vclass[j] in ("equal", "all_zero", "zeros_mixed")
        if j == 0:
            ctx.mark([len(sgroups), len(strata), nctl, form, vclass, signs, n_groups_max, full_table, as_int], nontrivial,
                     sample={"strata": [list(s) for s in strata], "cells": [[list(c[1]), list(c[2]), float(cv[i])] for i, c in enumerate(cells)],
                             "overall": {str(k): float(v) for k, v in ov.items()}, "form": form, "value_class": vclass[j]})
        check_table(ctx, mf, mets[j].__name__, form, nctl, strata, cells, cv, ov)
    contracts.flush_into(ctx, "C02:")


def _get(res, name, form, nctl, stratum):
    """Extract the scalar for (metric name, stratum) from an aggregate result of any documented shape."""
    if nctl == 0:
        return res if form == "callable" else res[name]
    key = stratum[0] if nctl == 1 else tuple(stratum)
    if not isinstance(res, pd.Series if form == "callable" else pd.DataFrame):
        raise _NoEntryPerControlCombination(type(res).__name__)
    if form == "callable":
        return res.loc[key]
    return res.loc[key, name]


class _NoEntryPerControlCombination(Exception):
    pass


def check_table(ctx, mf, name, form, nctl, strata, cells, cv, ov):
    results = {}
    for err in ERRORS:
        results[("group_min", None, err)] = mf.group_min(errors=err)
        results[("group_max", None, err)] = mf.group_max(errors=err)
        for method in METHODS:
            results[("difference", method, err)] = mf.difference(method=method, errors=err)
            results[("ratio", method, err)] = mf.ratio(method=method, errors=err)
    for si, st in enumerate(strata):
        vals = [float(cv[ci]) for ci, c in enumerate(cells) if c[0] == si]
        if not vals:
            continue
        defined = [v for v in vals if not isnan(v)]  # NaN-valued cells are skipped, like empty combinations
        o = float(ov[si])
        exp = {("group_min", None): [min(defined) if defined else float("nan")], ("group_max", None): [max(defined) if defined else float("nan")]}
        for method in METHODS:
            exp[("difference", method)] = [R.agg_difference(vals, o, method)]
            r = R.agg_ratio(vals, o, method)
            cands = [r]
            if method == "to_overall":
                # documented alternative reading for negative ratios: r if r<=1 else 1/r
                alt = []
                for v in vals:
                    q = R._fdiv(v, o)
                    if isnan(q):
                        continue
                    alt.append(R._fdiv(1.0, q) if q > 1 else q)
                if alt:
                    cands.append(min(alt))
            exp[("ratio", method)] = cands
        wit = {"stratum": list(st), "group_values": vals, "overall": o, "form": form, "control_features": nctl}
        got = {}
        for (agg, method, err), res in results.items():
            try:
                v = _get(res, name, form, nctl, st)
            except _NoEntryPerControlCombination as e:
                # with control features every aggregate is indexed by the control combinations, also when only one occurs
                ctx.violate("aggregate_has_no_entry_per_control_combination:%s" % agg, method=method, errors=err, got_type=str(e), wit=wit)
                return
            got[(agg, method, err)] = v
            ctx.ev("aggregate_values_compared")
            ok = np.ndim(v) == 0 and any(close(v, c, 1e-12, 0.0) or (c == 0 and v == 0) for c in exp[(agg, method)])
            ctx.check(ok, "aggregate_mismatch:%s:%s" % (agg, method), errors=err, got=repr(v), expected=exp[(agg, method)], wit=wit)
        for (agg, method) in exp:
            a, b = got[(agg, method, "raise")], got[(agg, method, "coerce")]
            ctx.ev("raise_coerce_pairs_compared")
            ctx.check(close(a, b, 0.0, 0.0), "raise_and_coerce_disagree:%s:%s" % (agg, method), raise_=repr(a), coerce=repr(b), wit=wit)
        # stated inequalities on the returned values themselves
        for err in ERRORS:
            db, dt = got[("difference", "between_groups", err)], got[("difference", "to_overall", err)]
            rb, rt = got[("ratio", "between_groups", err)], got[("ratio", "to_overall", err)]
            ctx.ev("inequalities_checked")
            ctx.check(isnan(db) or db >= 0, "difference_negative:between_groups", got=repr(db), wit=wit)
            ctx.check(isnan(dt) or dt >= 0, "difference_negative:to_overall", got=repr(dt), wit=wit)
            ctx.check(isnan(db) or isnan(dt) or db <= 2 * dt * (1 + 1e-12) + 1e-300, "between_exceeds_twice_to_overall", between=repr(db),
                      to_overall=repr(dt), wit=wit)
            ctx.check(isnan(rt) or rt <= 1, "ratio_above_one:to_overall", got=repr(rt), wit=wit)
            if defined and max(defined) > 0:
                ctx.check(isnan(rb) or rb <= 1, "ratio_above_one:between_groups", got=repr(rb), wit=wit)
            if defined and min(defined) >= 0 and o >= 0:
                ctx.check(isnan(rb) or rb >= 0, "ratio_negative_for_nonnegative_metric:between_groups", got=repr(rb), wit=wit)
                ctx.check(isnan(rt) or rt >= 0, "ratio_negative_for_nonnegative_metric:to_overall", got=repr(rt), wit=wit)


def run_weighted(ctx, rng, MetricFrame):
    import fairlearn.metrics as M
    from sklearn.metrics import accuracy_score

    n = int(rng.integers(2, 61))
    k = int(rng.integers(1, 6))
    g = ["g%d" % i for i in gen.skewed_labels(rng, n, k)]
    nctl = int(gen.pick(rng, [0, 0, 1]))
    c = ["c%d" % i for i in gen.skewed_labels(rng, n, 2)] if nctl else None
    y = rng.integers(0, 2, size=n)
    p = rng.integers(0, 2, size=n)
    w = gen.positive_weights(rng, n)
    realp = rng.normal(size=n).round(3)
    form = gen.pick(rng, ["dict", "callable"])
    if form == "dict":
        metrics = {"sel": M.selection_rate, "acc": accuracy_score, "mp": M.mean_prediction}
        sp = {kk: {"sample_weight": w} for kk in metrics}
        yp = p
    else:
        which = gen.pick(rng, ["sel", "acc", "mp"])
        f = {"sel": M.selection_rate, "acc": accuracy_score, "mp": M.mean_prediction}[which]
        metrics, sp = f, {"sample_weight": w}
        yp = realp if which == "mp" else p
    mf = MetricFrame(metrics=metrics, y_true=y, y_pred=yp, sensitive_features=g, control_features=c, sample_params=sp)
    sizes = sorted(pd.Series(g).value_counts().tolist())
    ctx.mark(["weighted", n, sizes, nctl, form], len(sizes) >= 2, sample={"n": n, "groups": g, "control": c, "form": form})
    for err in ERRORS:
        db = mf.difference(method="between_groups", errors=err)
        dt = mf.difference(method="to_overall", errors=err)
        a = np.asarray(db, dtype=float).ravel()
        b = np.asarray(dt, dtype=float).ravel()
        for x, z in zip(a, b):
            ctx.ev("weighted_mean_inequality_checked")
            ctx.check(isnan(x) or isnan(z) or z <= x + 1e-12, "to_overall_exceeds_between_for_weighted_mean", between=float(x),
                      to_overall=float(z), groups=g, control=c, y_true=y.tolist(), y_pred=np.asarray(yp).tolist(), weights=w.tolist())
            ctx.check(isnan(x) or isnan(z) or x <= 2 * z + 1e-12, "between_exceeds_twice_to_overall", between=float(x), to_overall=float(z))
        rb = np.asarray(mf.ratio(method="between_groups", errors=err), dtype=float).ravel()
        rt = np.asarray(mf.ratio(method="to_overall", errors=err), dtype=float).ravel()
        for x in list(rb) + list(rt):
            ctx.ev("inequalities_checked")
            if form == "dict" or which != "mp":
                ctx.check(isnan(x) or (0 <= x <= 1), "ratio_outside_unit_interval_for_rate_metric", got=float(x), groups=g)
