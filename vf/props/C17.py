"""C17 Adversarial fit is the documented step schedule; predict stays in label space."""
from __future__ import annotations

import copy
import math

import numpy as np

from vf import gen
from vf.common import rng_for

ID = "C17"
DECIDING = ["schedules_checked", "callback_traces_checked", "partial_fit_histories_compared", "predictions_checked"]
BUDGET = {"quick": 200, "thorough": 1800}
ANCHORED = ["_AdversarialFairness.fit", "_AdversarialFairness.partial_fit", "_AdversarialFairness.predict", "_AdversarialFairness._raw_predict",
            "FloatTransformer.inverse_transform", "PytorchEngine.train_step"]
RULE = ("random cases: n in 1..25 rows whose first feature column is the row id, batch_size in {-1, 1..n+3}, epochs in 1..3 (or -1 "
        "with max_iter), max_iter in {-1, 1..8} (set as attribute), 1..2 callbacks with a stop step in {none, 1..6}, SGD or Adam, "
        "classifier (binary/multiclass, int and string labels, binary encodings {0,1},{3,7},{1,2},{1,5}; sensitive feature in {0,1},{1,2},{1,5},{2,9}) and regressor, PyTorch backend, shuffle=False; in a quarter of the cases a "
        "second, warm-started fit() follows on the same estimator and its trace is checked as well. Monitors: a recording "
        "predictor module logs the row ids of every training batch, recording callbacks log (step, n_iter_); the trace is checked "
        "offline against the documented schedule (consecutive slices, step count, callback numbering, no callback after the step that "
        "exhausts max_iter, stop at the first True). A second identically configured estimator with identical initial modules is "
        "driven through partial_fit with the same slices and the final parameters are compared. predict(X) is compared with "
        "_raw_predict(X) and with the harness's own forward pass: larger class iff output >= 0.5 (rows built to give exactly 0.5), "
        "arg-max class, raw output; results must be training labels. distinct = distinct (estimator, label kind, n, batch_size, "
        "epochs, max_iter, stop, #callbacks, optimiser); non-trivial = at least 2 steps executed.")
ASSUMPTIONS = ["shuffle=False", "first slice contains every class of y and of the sensitive feature (documented requirement); for "
               "multiclass targets every slice holds >=3 classes (needed by the partial_fit route only)", "PyTorch backend"]


def cases(tier, seed):
    return [("schedule", i) for i in range(420 if tier == "quick" else 14000)]


def make_modules(torch, d, n_out, final, n_adv_out, adv_final, bias):
    class RecPredictor(torch.nn.Module):
        def __init__(self):
            super().__init__()
            self.lin = torch.nn.Linear(d - 1, n_out, bias=bias)
            self.log = []

        def forward(self, x):
            if self.training:
                self.log.append([int(round(float(v))) for v in x[:, 0].detach().tolist()])
            z = self.lin(x[:, 1:])
            if final == "sigmoid":
                return torch.sigmoid(z)
            if final == "softmax":
                return torch.softmax(z, dim=1)
            return z

    class Adv(torch.nn.Module):
        def __init__(self):
            super().__init__()
            self.lin = torch.nn.Linear(n_out, n_adv_out)

        def forward(self, x):
            z = self.lin(x)
            return torch.sigmoid(z) if adv_final == "sigmoid" else z

    return RecPredictor(), Adv()


class RecCallback:
    def __init__(self, stop_at=None):
        self.stop_at, self.calls = stop_at, []

    def __call__(self, est, step=None, **kw):
        self.calls.append((step, getattr(est, "n_iter_", None)))
        return bool(self.stop_at is not None and step == self.stop_at)


def run_case(cls, key, seed, ctx):
    import torch

    torch.set_num_threads(1)
    from fairlearn.adversarial import AdversarialFairnessClassifier, AdversarialFairnessRegressor

    rng = rng_for(seed, ID, cls, key)
    kind = gen.pick(rng, ["binary_int", "binary_str", "binary_int37", "binary_int12", "binary_int15", "multiclass_int", "multiclass_str", "regression"])
    n = int(rng.integers(1, 26))
    if kind.startswith("multiclass"):
        n = max(n, 3)
    b = int(gen.pick(rng, [-1] + list(range(1, n + 4))))
    if kind.startswith("multiclass"):
        b = -1 if b == -1 else max(b, 3)
    beff = n if b == -1 else b
    batches = math.ceil(n / beff)
    # ---- labels: the first slice must contain every class; multiclass: every slice has >= 3 classes
    first = min(beff, n)
    if kind.startswith("binary"):
        classes = {"binary_int": [0, 1], "binary_str": ["no", "yes"], "binary_int37": [3, 7], "binary_int12": [1, 2], "binary_int15": [1, 5]}[kind]
        if first < 2:
            classes = classes[:1] if n < 2 else classes
        yi = rng.integers(0, len(classes), size=n)
        if len(classes) == 2:
            if first >= 2:
                yi[0], yi[1] = 0, 1
            else:  # batch size 1: no first slice can hold both classes -> use fit only (no partial_fit route)
                pass
        y = [classes[i] for i in yi]
    elif kind.startswith("multiclass"):
        classes = [0, 1, 2] if kind == "multiclass_int" else ["a", "b", "c"]
        yi = np.array([i % 3 for i in range(n)])
        y = [classes[i] for i in yi]
    else:
        classes = None
        y = (rng.normal(size=n).round(3) + 0.137).tolist()
    # sensitive feature: binary, first slice holds both values when possible
    a = rng.integers(0, 2, size=n)
    if first >= 2:
        a[0], a[1] = 0, 1
    # ... in one of several encodings (a slice that holds a single value of {1,2} must still be encoded like the whole column)
    a_enc = gen.pick(rng, [None, None, [1, 2], [1, 5], [2, 9]])
    if a_enc is not None:
        a = np.asarray([a_enc[int(v)] for v in a])
    ids = np.arange(n, dtype=float)
    d = int(rng.integers(2, 5))
    F = rng.normal(size=(n, d - 1)).round(3)
    zero_rows = [i for i in range(n) if rng.random() < 0.25]
    F[zero_rows, :] = 0.0
    X = np.column_stack([ids, F])
    epochs = int(gen.pick(rng, [1, 1, 2, 3]))
    max_iter = int(gen.pick(rng, [-1, -1, -1, 1, 2, 3, 5, 8]))
    if max_iter != -1 and rng.random() < 0.25:
        epochs = -1
    stop_at = gen.pick(rng, [None, None, 1, 2, 3, 4, 6])
    ncb = int(gen.pick(rng, [0, 1, 1, 2]))
    stopper = int(rng.integers(0, ncb)) if ncb else None
    opt = gen.pick(rng, ["sgd", "adam"])
    lr = 0.05
    n_out = 1 if not kind.startswith("multiclass") else 3
    final = "sigmoid" if kind.startswith("binary") else ("softmax" if kind.startswith("multiclass") else "identity")
    pred, adv = make_modules(torch, d, n_out, final, 1, "sigmoid", bias=False)
    torch.manual_seed(int(rng.integers(0, 2 ** 31)))
    for m in (pred, adv):
        for p in m.parameters():
            torch.nn.init.normal_(p, std=0.5)
    pred2, adv2 = copy.deepcopy(pred), copy.deepcopy(adv)
    pred2.log = []
    only_one_class = classes is not None and len(set(y)) < 2
    Est = AdversarialFairnessRegressor if kind == "regression" else AdversarialFairnessClassifier

    warm2 = bool(rng.random() < 0.25)   # a second, warm-started fit() on the same estimator: the schedule starts afresh

    def make(est_pred, est_adv, callbacks):
        if opt == "sgd":
            po = lambda m: torch.optim.SGD(m.parameters(), lr=lr)  # noqa: E731
            ao = lambda m: torch.optim.SGD(m.parameters(), lr=lr)  # noqa: E731
        else:
            po = ao = "Adam"
        e = Est(backend="torch", predictor_model=est_pred, adversary_model=est_adv, predictor_optimizer=po, adversary_optimizer=ao, learning_rate=lr,
                epochs=epochs, batch_size=b, shuffle=False, callbacks=callbacks, random_state=7, alpha=0.5, warm_start=warm2)
        e.max_iter = max_iter
        return e
    cbs = [RecCallback(stop_at if j == stopper else None) for j in range(ncb)]
    est = make(pred, adv, cbs if ncb != 1 else (cbs[0] if rng.random() < 0.5 else cbs))
    wit = {"kind": kind, "n": n, "batch_size": b, "epochs": epochs, "max_iter": max_iter, "stop_at": stop_at if ncb else None, "callbacks": ncb,
           "stopper": stopper, "optimizer": opt, "labels": y, "sensitive": a.tolist(), "second_warm_started_fit": warm2}
    if only_one_class:
        ctx.ev("skipped_single_class")
        return
    est.fit(X, y, sensitive_features=a)
    n_fits = 1
    if warm2:
        first_log = list(pred.log)
        pred.log = []
        for cb in cbs:
            cb.calls = []
        est.fit(X, y, sensitive_features=a)
        n_fits = 2
    # ---- expected schedule from the documented rule
    total_epochs = epochs if epochs != -1 else math.ceil(max_iter / batches)
    planned = []
    for ep in range(total_epochs):
        for t in range(batches):
            planned.append(list(range(t * beff, min((t + 1) * beff, n))))
    expected, cb_expected = [], []
    for k, sl in enumerate(planned, start=1):
        expected.append(sl)
        if max_iter != -1 and k >= max_iter:
            break
        if ncb:
            cb_expected.append(k)
            if stop_at is not None and k == stop_at:
                break
    ctx.ev("schedules_checked")
    ctx.check(pred.log == expected, "training_batches_differ_from_documented_schedule", observed=pred.log[:12], expected=expected[:12],
              observed_steps=len(pred.log), expected_steps=len(expected), wit=wit)
    ctx.check(getattr(est, "n_iter_", None) == len(expected), "n_iter_differs_from_number_of_steps", n_iter=getattr(est, "n_iter_", None), expected=len(expected), wit=wit)
    for j, cb in enumerate(cbs):
        ctx.ev("callback_traces_checked")
        ctx.check([c[0] for c in cb.calls] == cb_expected, "callback_invocations_differ_from_documented_trace", callback=j,
                  observed=[c[0] for c in cb.calls][:16], expected=cb_expected[:16], wit=wit)
    if warm2:
        ctx.check(first_log == expected, "training_batches_differ_from_documented_schedule:first_fit", observed=first_log[:12], expected=expected[:12], wit=wit)
    ctx.mark([Est.__name__, kind, n, b, epochs, max_iter, stop_at if ncb else None, ncb, opt, warm2], len(expected) >= 2, sample=wit)
    # ---- the same slices through partial_fit on an identically configured estimator
    can_partial = all(len(s) > 0 for s in expected)
    if kind.startswith("binary") and (first < 2):
        can_partial = len(set(y[:1])) == len(set(y)) and len(set(a[:first].tolist())) == len(set(a.tolist()))
    if len(set(a[:first].tolist())) != len(set(a.tolist())):
        can_partial = False
    if kind.startswith("multiclass") and any(len({y[i] for i in sl}) < 3 for sl in expected):
        can_partial = False  # a slice with fewer than 3 classes is not a multiclass target on its own (documented limitation)
    if can_partial:
        est2 = make(pred2, adv2, None)
        ya, aa = np.asarray(y, dtype=object if isinstance(y[0], str) else None), a
        for sl in expected * n_fits:
            est2.partial_fit(X[sl], ya[sl], sensitive_features=aa[sl])
        ctx.ev("partial_fit_histories_compared")
        tol = 0.0 if opt == "sgd" else 1e-6
        for (n1, p1), (n2, p2) in zip(list(pred.state_dict().items()) + list(adv.state_dict().items()),
                                      list(pred2.state_dict().items()) + list(adv2.state_dict().items())):
            diff = float((p1 - p2).abs().max()) if p1.numel() else 0.0
            ctx.check(diff <= tol + 1e-7 * float(p1.abs().max()), "model_after_fit_differs_from_equivalent_partial_fit_sequence", tensor=n1, max_abs_diff=diff,
                      steps=len(expected), wit=wit)
        ctx.check(pred2.log == expected * n_fits, "partial_fit_batches_differ_from_the_slices_passed", wit=wit)
    else:
        ctx.ev("partial_fit_route_not_applicable")
    # ---- predict stays in label space and follows the threshold / arg-max / raw rule
    Xq = np.vstack([X, np.column_stack([np.arange(3) + 100.0, np.zeros((3, d - 1))])])
    out = np.asarray(est.predict(Xq))
    raw = np.asarray(est._raw_predict(Xq))
    pred.eval()
    with torch.no_grad():
        own = pred(torch.from_numpy(Xq).float()).numpy()
    ctx.ev("predictions_checked")
    ctx.check(raw.shape == own.shape and bool(np.allclose(raw, own, atol=1e-6)), "raw_predict_differs_from_forward_pass_of_the_predictor", wit=wit)
    if kind == "regression":
        ctx.check(out.shape == (len(Xq),) and bool(np.allclose(out.astype(float), own.reshape(-1), atol=1e-6)), "regression_predict_is_not_the_raw_output",
                  got=out[:5].tolist(), expected=own.reshape(-1)[:5].tolist(), wit=wit)
    else:
        lab = sorted(set(y))
        ctx.check(all(v in lab for v in out.tolist()), "predict_returns_value_outside_training_label_set", got=list(map(repr, out[:8].tolist())), labels=lab, wit=wit)
        if kind.startswith("binary"):
            exp = [lab[-1] if own[i, 0] >= 0.5 else lab[0] for i in range(len(Xq))] if len(lab) == 2 else None
            if exp is not None:
                half = [i for i in range(len(Xq)) if own[i, 0] == 0.5]
                ctx.ev("exact_half_rows_seen", len(half))
                ctx.check(out.tolist() == exp, "binary_predict_is_not_positive_class_iff_output_at_least_half", got=list(map(repr, out[:10].tolist())),
                          expected=list(map(repr, exp[:10])), outputs=own[:10, 0].tolist(), rows_with_exactly_half=half[:5], wit=wit)
        else:
            exp = [lab[int(np.argmax(own[i]))] for i in range(len(Xq))]
            ties = [i for i in range(len(Xq)) if np.sort(own[i])[-1] == np.sort(own[i])[-2]]
            ok = all(out[i] == exp[i] for i in range(len(Xq)) if i not in ties)
            ctx.check(ok, "multiclass_predict_is_not_the_argmax_class", got=list(map(repr, out[:10].tolist())), expected=list(map(repr, exp[:10])), wit=wit)
