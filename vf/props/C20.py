"""C20 Inconsistent or unsupported inputs are rejected, never silently processed."""
from __future__ import annotations

import os
import traceback

import numpy as np
import pandas as pd

from vf import gen
from vf.common import REPO, crc, rng_for
from vf.monitors.learners import ExactLearner
from vf.props import _tolib as TL

ID = "C20"
DECIDING = ["cells_executed", "cells_rejected", "not_fitted_cells", "controls_accepted"]
BUDGET = {"quick": 200, "thorough": 1500}
ANCHORED = ["_validate_and_reformat_input", "MetricFrame._process_features", "_calculate_tradeoff_points", "UtilityParity.__init__",
            "ErrorRate.__init__", "GridSearch.__init__", "ThresholdOptimizer.fit"]
RULE = ("defect-injection matrix. length: for each entry point (MetricFrame, 6 fairness metrics + 2 generated ones, 5 parity moments + "
        "ErrorRate + BoundedGroupLoss load_data, ExponentiatedGradient.fit, GridSearch.fit, ThresholdOptimizer.fit) x each argument "
        "(labels, predictions, X, sample parameter, sensitive, control features) x container (list, ndarray, Series, DataFrame) x "
        "offset (+-1, +-2, n-1 rows short) in otherwise valid random data; label: a value outside {0,1} (2, -1, 0.5, 3) at a random "
        "position; missing sensitive feature; a ThresholdOptimizer group lacking one label (any group, either label); every "
        "unsupported constraint/objective pair and unknown names; control_features for ThresholdOptimizer; conflicting / "
        "out-of-range parity bounds; ErrorRate costs; GridSearch constraint_weight; MetricFrame duplicate and non-string feature "
        "names; CorrelationRemover ids absent from X; predict/transform before fit (must be NotFittedError). Every cell must raise; "
        "the monitor records exception type and the innermost fairlearn/sklearn frame; for the length / label / missing-class cells the "
        "same call WITHOUT the defect is executed first and must be accepted (control), so a rejection is attributable to the defect. distinct = distinct (entry point, argument, "
        "defect, container); every cell is non-trivial (each is a defect the property names).")
ASSUMPTIONS = ["'out-of-range parity bounds' = the documented range ratio_bound in (0,1] (a negative difference bound has no documented range "
               "and is not demanded)", "a TypeError for an omitted required argument counts as a rejection"]
CONT = ["list", "ndarray", "series", "df"]
FAIR = ["demographic_parity_difference", "demographic_parity_ratio", "equal_opportunity_difference", "equal_opportunity_ratio",
        "equalized_odds_difference", "equalized_odds_ratio", "selection_rate_difference", "accuracy_score_group_min"]
MOMENTS = ["DemographicParity", "TruePositiveRateParity", "FalsePositiveRateParity", "EqualizedOdds", "ErrorRateParity", "ErrorRate", "BoundedGroupLoss"]
OFFSETS = ["+1", "-1", "+2", "-2", "short"]


def cases(tier, seed):
    reps = 1 if tier == "quick" else 12
    out = []
    for r in range(reps):
        for c in CONT:
            for off in OFFSETS:
                for arg in ("y_true", "y_pred", "sample_weight", "sensitive_features", "control_features"):
                    out.append(("length", ["MetricFrame", arg, c, off, r]))
                for fn in FAIR:
                    for arg in ("y_true", "y_pred", "sample_weight", "sensitive_features"):
                        if (crc(repr((fn, arg, c, off))) % 3 == 0) or tier == "thorough":
                            out.append(("length", [fn, arg, c, off, r]))
                for m in MOMENTS:
                    for arg in ("X", "y", "sensitive_features", "control_features"):
                        if arg == "control_features" and m == "BoundedGroupLoss":
                            continue
                        if (crc(repr((m, arg, c, off))) % 2 == 0) or tier == "thorough":
                            out.append(("length", [m, arg, c, off, r]))
                for ep in ("ExponentiatedGradient", "GridSearch", "ThresholdOptimizer"):
                    for arg in ("X", "y", "sensitive_features", "control_features"):
                        if arg == "control_features" and ep == "ThresholdOptimizer":
                            continue
                        out.append(("length", [ep, arg, c, off, r]))
            for ep in MOMENTS[:6] + ["ExponentiatedGradient", "GridSearch", "ThresholdOptimizer"]:
                for bad in (2, -1, 0.5, 3):
                    out.append(("label", [ep, c, bad, r]))
            for g in range(3):
                for lab in (0, 1):
                    out.append(("degenerate", [c, g, lab, r]))
        for ep in MOMENTS + ["ExponentiatedGradient", "GridSearch", "ThresholdOptimizer"]:
            out.append(("missing_sf", [ep, r]))
        out += [("to_config", [i, r]) for i in range(28)]
        out += [("bounds", [i, r]) for i in range(45)]
        out += [("costs", [i, r]) for i in range(15)]
        out += [("weight", [i, r]) for i in range(7)]
        out += [("names", [i, r]) for i in range(16)]
        out += [("corr_ids", [i, r]) for i in range(6)]
        out += [("not_fitted", [i, r]) for i in range(14)]
    return out


# ------------------------------------------------------------------------------------------------- helpers

def site_of(tb):
    """innermost frame inside fairlearn, else inside sklearn/pandas/numpy."""
    fl, other = None, None
    prefix = os.path.join(REPO, "fairlearn") + os.sep
    for fr in traceback.extract_tb(tb):
        if fr.filename.startswith(prefix):
            fl = "fairlearn/%s:%s" % (fr.filename[len(prefix):], fr.name)
        elif "site-packages" in fr.filename:
            other = "%s:%s" % (fr.filename.split("site-packages/")[-1].split("/")[0], fr.name)
    return fl or other or "?"


def control_accepts(ctx, what, fn):
    """The same call without the defect must be accepted - otherwise the cell would be rejected for another reason
    than the injected defect (a harness problem: reported as a harness error, never as a verdict)."""
    try:
        fn()
    except Exception as e:  # noqa: BLE001
        raise RuntimeError("control call without the defect was rejected (%s): %r" % (what, e))
    ctx.ev("controls_accepted")


def expect_raise(ctx, what, fn, wit, must_be=None):
    ctx.ev("cells_executed")
    try:
        res = fn()
    except Exception as e:  # noqa: BLE001
        ctx.ev("cells_rejected")
        ctx.ev("rejected_at:" + site_of(e.__traceback__))
        ctx.ev("rejected_with:" + type(e).__name__)
        if must_be is not None:
            ctx.check(isinstance(e, must_be), "wrong_exception_type:" + what, got=type(e).__name__, message=str(e)[:200], wit=wit)
        return
    ctx.violate("defective_input_accepted:" + what, returned=repr(res)[:200], wit=wit)


def base_data(rng, n=None, groups=3):
    n = n or int(rng.integers(6, 21))
    g = [["a", "b", "c"][i % groups] for i in range(n)]
    y = [0, 1] * (n // 2) + [0] * (n % 2)
    # both labels in every group
    for a in set(g):
        rows = [i for i in range(n) if g[i] == a]
        if len(rows) >= 2:
            y[rows[0]], y[rows[1]] = 0, 1
    return {"n": n, "y": y, "p": rng.integers(0, 2, size=n).tolist(), "g": g, "c": [["u", "v"][i % 2] for i in rng.integers(0, 2, size=n)],
            "w": np.round(rng.uniform(0.5, 2, size=n), 2).tolist(), "X": np.column_stack([rng.integers(0, 3, size=n).astype(float), rng.normal(size=n).round(2)])}


def resize(vals, off, rng):
    vals = list(vals)
    n = len(vals)
    if off == "short":
        return vals[:1]
    k = int(off)
    if k > 0:
        return vals + [vals[int(rng.integers(0, n))] for _ in range(k)]
    return vals[: max(1, n + k)] if n + k >= 1 else vals[:1]


def contain(vals, c, rng, name="v"):
    return gen.as_vec(vals, {"df": "df", "series": "series", "list": "list", "ndarray": "ndarray"}[c], rng, name=name)


def moment(name):
    import fairlearn.reductions as red

    if name == "BoundedGroupLoss":
        return red.BoundedGroupLoss(red.ZeroOneLoss(), upper_bound=0.1)
    return getattr(red, name)()


def run_case(cls, key, seed, ctx):
    rng = rng_for(seed, ID, cls, key)
    ctx.mark([cls] + [k for k in key[:-1]], True, sample={"class": cls, "cell": key})
    globals()["run_" + cls](ctx, rng, key)


# ------------------------------------------------------------------------------------------------- classes

def run_length(ctx, rng, key):
    import fairlearn.metrics as M
    import fairlearn.reductions as red
    from fairlearn.postprocessing import ThresholdOptimizer

    ep, arg, c, off, _ = key
    d = base_data(rng)
    if len(resize(d["y"], off, rng)) == d["n"]:
        return
    wit = {"entry_point": ep, "argument": arg, "container": c, "offset": off, "n": d["n"]}
    what = "length_mismatch:%s:%s" % (ep, arg)
    conts = {k: gen.pick(rng, CONT) for k in ("y_true", "y_pred", "sample_weight", "sensitive_features", "control_features", "X", "y")}
    conts[arg] = c
    use_control = arg == "control_features" or (rng.random() < 0.3 and ep not in ("BoundedGroupLoss", "ThresholdOptimizer"))
    constraint = gen.pick(rng, TL.CONSTRAINTS)
    iseed = int(rng.integers(0, 2 ** 31))

    def build(offset):
        r = np.random.default_rng(iseed)
        if ep == "MetricFrame" or ep in FAIR:
            a = {"y_true": d["y"], "y_pred": d["p"], "sample_weight": d["w"], "sensitive_features": d["g"], "control_features": d["c"]}
            if offset is not None:
                a[arg] = resize(a[arg], offset, r)
            a = {k: contain(v, conts[k], r, name=k) for k, v in a.items()}
            if ep == "MetricFrame":
                return lambda: M.MetricFrame(metrics={"s": M.selection_rate}, y_true=a["y_true"], y_pred=a["y_pred"], sensitive_features=a["sensitive_features"],
                                             control_features=a["control_features"], sample_params={"s": {"sample_weight": a["sample_weight"]}})
            return lambda: getattr(M, ep)(a["y_true"], a["y_pred"], sensitive_features=a["sensitive_features"], sample_weight=a["sample_weight"])
        a = {"X": d["X"], "y": d["y"], "sensitive_features": d["g"], "control_features": d["c"]}
        if offset is not None:
            if arg == "X":
                a["X"] = d["X"][resize(list(range(d["n"])), offset, r)]
            else:
                a[arg] = resize(a[arg], offset, r)
        Xc = pd.DataFrame(a["X"]) if (conts["X"] in ("df", "series") and arg == "X") else a["X"]
        kw = {"sensitive_features": contain(a["sensitive_features"], conts["sensitive_features"], r, name="sf")}
        if use_control:
            kw["control_features"] = contain(a["control_features"], conts["control_features"], r, name="cf")
        yc = contain(a["y"], conts["y"], r)
        if ep in MOMENTS:
            return lambda: moment(ep).load_data(Xc, yc, **kw)
        if ep == "ExponentiatedGradient":
            return lambda: red.ExponentiatedGradient(ExactLearner("cells"), red.DemographicParity(), max_iter=2, nu=1e-3).fit(Xc, yc, **kw)
        if ep == "GridSearch":
            return lambda: red.GridSearch(ExactLearner("cells"), red.EqualizedOdds(), grid_size=3).fit(Xc, yc, **kw)
        return lambda: ThresholdOptimizer(estimator=TL.ScoreColumn().fit(None), prefit=True, predict_method="predict", constraints=constraint).fit(Xc, yc, **kw)

    control_accepts(ctx, what, build(None))
    expect_raise(ctx, what, build(off), wit)


def run_label(ctx, rng, key):
    import fairlearn.reductions as red
    from fairlearn.postprocessing import ThresholdOptimizer

    ep, c, bad, _ = key
    d = base_data(rng)
    y = list(d["y"])
    pos = int(rng.integers(0, d["n"]))
    y[pos] = bad
    yc = contain(y, c, rng)
    wit = {"entry_point": ep, "container": c, "bad_label": bad, "position": pos, "n": d["n"]}
    what = "label_outside_0_1:%s" % ep
    if ep in MOMENTS:
        m = moment(ep)
        fn = lambda: m.load_data(d["X"], yc, sensitive_features=d["g"])  # noqa: E731
    elif ep == "ExponentiatedGradient":
        fn = lambda: red.ExponentiatedGradient(ExactLearner("cells"), red.EqualizedOdds(), max_iter=3, nu=1e-3).fit(d["X"], yc, sensitive_features=d["g"])  # noqa: E731
    elif ep == "GridSearch":
        fn = lambda: red.GridSearch(ExactLearner("cells"), red.DemographicParity(), grid_size=4).fit(d["X"], yc, sensitive_features=d["g"])  # noqa: E731
    else:
        cons = gen.pick(rng, TL.CONSTRAINTS)
        fn = lambda: ThresholdOptimizer(estimator=TL.ScoreColumn().fit(None), prefit=True, predict_method="predict",  # noqa: E731
                                        constraints=cons).fit(d["X"], yc, sensitive_features=d["g"])
    if ep in MOMENTS:
        control_accepts(ctx, what, lambda: moment(ep).load_data(d["X"], contain(d["y"], c, rng), sensitive_features=d["g"]))
    expect_raise(ctx, what, fn, wit)


def run_degenerate(ctx, rng, key):
    from fairlearn.postprocessing import ThresholdOptimizer

    c, gidx, lab, _ = key
    d = base_data(rng, n=int(rng.integers(9, 21)))
    a = ["a", "b", "c"][gidx]
    y = [lab if d["g"][i] == a else d["y"][i] for i in range(d["n"])]
    constraint = gen.pick(rng, TL.CONSTRAINTS)
    wit = {"group": a, "only_label": lab, "constraint": constraint, "container": c, "y": y, "groups": d["g"]}
    control_accepts(ctx, "group_lacking_a_label", lambda: ThresholdOptimizer(
        estimator=TL.ScoreColumn().fit(None), prefit=True, predict_method="predict", constraints=constraint).fit(
        d["X"], contain(d["y"], c, rng), sensitive_features=contain(d["g"], c, rng)))
    expect_raise(ctx, "group_lacking_a_label:ThresholdOptimizer", lambda: ThresholdOptimizer(
        estimator=TL.ScoreColumn().fit(None), prefit=True, predict_method="predict", constraints=constraint, flip=bool(rng.random() < 0.5)).fit(
        d["X"], contain(y, c, rng), sensitive_features=contain(d["g"], c, rng)), wit)


def run_missing_sf(ctx, rng, key):
    import fairlearn.reductions as red
    from fairlearn.postprocessing import ThresholdOptimizer

    ep, _ = key
    d = base_data(rng)
    wit = {"entry_point": ep}
    if ep in MOMENTS:
        m = moment(ep)
        fn = lambda: m.load_data(d["X"], d["y"], sensitive_features=None)  # noqa: E731
    elif ep == "ExponentiatedGradient":
        fn = lambda: red.ExponentiatedGradient(ExactLearner("cells"), red.DemographicParity(), max_iter=3).fit(d["X"], d["y"]) if rng.random() < 0.5 else \
            red.ExponentiatedGradient(ExactLearner("cells"), red.DemographicParity(), max_iter=3).fit(d["X"], d["y"], sensitive_features=None)  # noqa: E731
    elif ep == "GridSearch":
        fn = lambda: red.GridSearch(ExactLearner("cells"), red.DemographicParity(), grid_size=4).fit(d["X"], d["y"], sensitive_features=None)  # noqa: E731
    else:
        fn = lambda: ThresholdOptimizer(estimator=TL.ScoreColumn().fit(None), prefit=True, predict_method="predict").fit(d["X"], d["y"], sensitive_features=None)  # noqa: E731
    expect_raise(ctx, "missing_sensitive_feature:%s" % ep, fn, wit)


def run_to_config(ctx, rng, key):
    from fairlearn.postprocessing import ThresholdOptimizer

    i, _ = key
    d = base_data(rng)
    simple = list(TL.RT.SIMPLE.keys())
    cells = [("equalized_odds", o) for o in ("selection_rate", "true_positive_rate", "true_negative_rate", "false_positive_rate", "roc_auc_score", "", None)]
    cells += [(c, o) for c in simple for o in ("false_positive_rate", "false_negative_rate", "f1_score")][:14]
    cells += [("equalised_odds", "accuracy_score"), ("", "accuracy_score"), (None, "accuracy_score"), ("demographic parity", "accuracy_score"),
              ("DEMOGRAPHIC_PARITY", "accuracy_score"), ("error_rate_parity", "accuracy_score")]
    cells += [("__control__", "accuracy_score")]
    c, o = cells[i % len(cells)]
    wit = {"constraints": c, "objective": o}
    if c == "__control__":
        return expect_raise(ctx, "control_features_for_ThresholdOptimizer", lambda: ThresholdOptimizer(
            estimator=TL.ScoreColumn().fit(None), prefit=True, predict_method="predict").fit(d["X"], d["y"], sensitive_features=d["g"], control_features=d["c"]), wit)
    expect_raise(ctx, "unsupported_constraint_objective:ThresholdOptimizer", lambda: ThresholdOptimizer(
        estimator=TL.ScoreColumn().fit(None), prefit=True, predict_method="predict", constraints=c, objective=o).fit(d["X"], d["y"], sensitive_features=d["g"]), wit)


def run_bounds(ctx, rng, key):
    import fairlearn.reductions as red

    i, _ = key
    kinds = ["DemographicParity", "TruePositiveRateParity", "FalsePositiveRateParity", "EqualizedOdds", "ErrorRateParity"]
    kind = kinds[i % 5]
    specs = [dict(difference_bound=0.1, ratio_bound=0.8), dict(difference_bound=0.0, ratio_bound=1.0), dict(ratio_bound=0.0), dict(ratio_bound=-0.5),
             dict(ratio_bound=1.5), dict(ratio_bound=2), dict(ratio_bound=1.0000001), dict(ratio_bound=-1e-9, ratio_bound_slack=0.1), dict(ratio_bound=float("nan"))]
    spec = specs[(i // 5) % len(specs)]
    d = base_data(rng)
    wit = {"moment": kind, "arguments": {k: float(v) for k, v in spec.items()}}

    def fn():
        m = getattr(red, kind)(**spec)
        m.load_data(d["X"], d["y"], sensitive_features=d["g"])
        return m
    expect_raise(ctx, "conflicting_or_out_of_range_parity_bounds", fn, wit)


def run_costs(ctx, rng, key):
    import fairlearn.reductions as red

    i, _ = key
    specs = [{"fp": -1.0, "fn": 1.0}, {"fp": 1.0, "fn": -0.1}, {"fp": 0.0, "fn": 0.0}, {"fp": 1.0}, {"fn": 1.0}, {"fp": 1.0, "fn": 1.0, "tp": 0.0},
             [1.0, 1.0], (1.0, 1.0), "fp", 1.0, {}, {"FP": 1.0, "FN": 1.0},
             {"fp": float("nan"), "fn": 1.0}, {"fp": 1.0, "fn": np.float64("nan")}, {"fp": np.float32("nan"), "fn": float("nan")}]
    spec = specs[i % len(specs)]
    expect_raise(ctx, "bad_error_rate_costs", lambda: red.ErrorRate(costs=spec), {"costs": repr(spec)})


def run_weight(ctx, rng, key):
    import fairlearn.reductions as red

    i, _ = key
    w = [-0.1, 1.1, 2, -1, 1.0000001, -1e-9, float("nan")][i % 7]
    expect_raise(ctx, "constraint_weight_out_of_range:GridSearch", lambda: red.GridSearch(ExactLearner("cells"), red.DemographicParity(), constraint_weight=w),
                 {"constraint_weight": w})


def run_names(ctx, rng, key):
    from fairlearn.metrics import MetricFrame, count

    i, _ = key
    d = base_data(rng)
    n = d["n"]
    g2 = [["p", "q"][j % 2] for j in range(n)]
    cells = [
        ("duplicate_names:sensitive_sensitive_dict_like", dict(sensitive_features=pd.DataFrame(np.column_stack([d["g"], g2]), columns=["f", "f"]))),
        ("duplicate_names:sensitive_control", dict(sensitive_features=pd.Series(d["g"], name="f"), control_features=pd.Series(g2, name="f"))),
        ("duplicate_names:sensitive_control_df", dict(sensitive_features=pd.DataFrame({"f": d["g"], "h": g2}), control_features=pd.DataFrame({"h": d["c"]}))),
        ("duplicate_names:generated_name_clash", dict(sensitive_features=d["g"], control_features=pd.Series(g2, name="sensitive_feature_0"))),
        ("duplicate_names:generated_control_name_clash", dict(sensitive_features=pd.Series(d["g"], name="control_feature_0"), control_features=g2)),
        ("non_string_name:sensitive_df_column", dict(sensitive_features=pd.DataFrame({0: d["g"]}))),
        ("non_string_name:sensitive_df_column_mixed", dict(sensitive_features=pd.DataFrame({"f": d["g"], 1: g2}))),
        ("non_string_name:sensitive_series", dict(sensitive_features=pd.Series(d["g"], name=0))),
        ("non_string_name:sensitive_series_tuple", dict(sensitive_features=pd.Series(d["g"], name=("a", "b")))),
        ("non_string_name:sensitive_dict_key", dict(sensitive_features={0: d["g"]})),
        ("non_string_name:sensitive_dict_key_float", dict(sensitive_features={"f": d["g"], 1.5: g2})),
        ("non_string_name:control_df_column", dict(sensitive_features=d["g"], control_features=pd.DataFrame({0: g2}))),
        ("non_string_name:control_series", dict(sensitive_features=d["g"], control_features=pd.Series(g2, name=3))),
        ("non_string_name:control_dict_key", dict(sensitive_features=d["g"], control_features={7: g2})),
        ("non_string_name:control_df_column_second", dict(sensitive_features=d["g"], control_features=pd.DataFrame({"k": g2, 2: d["c"]}))),
        ("duplicate_names:control_control", dict(sensitive_features=d["g"], control_features=pd.DataFrame(np.column_stack([g2, d["c"]]), columns=["k", "k"]))),
    ]
    what, kw = cells[i % len(cells)]
    expect_raise(ctx, what, lambda: MetricFrame(metrics=count, y_true=d["y"], y_pred=d["p"], **kw), {"cell": what})


def run_corr_ids(ctx, rng, key):
    from fairlearn.preprocessing import CorrelationRemover

    i, _ = key
    X = rng.normal(size=(8, 3))
    cells = [(X, [3]), (X, [0, 5]), (X, [-4]), (pd.DataFrame(X, columns=["a", "b", "c"]), ["d"]), (pd.DataFrame(X, columns=["a", "b", "c"]), ["a", "z"]),
             (pd.DataFrame(X, columns=["a", "b", "c"]), [0])]
    Xc, ids = cells[i % len(cells)]
    expect_raise(ctx, "sensitive_feature_id_not_in_X:CorrelationRemover", lambda: CorrelationRemover(sensitive_feature_ids=ids).fit(Xc), {"ids": repr(ids), "container": type(Xc).__name__})
    # the same defect presented to an estimator that was fitted successfully before (equally wide frame lacking the column)
    pos = int(rng.integers(0, 3))
    good = pd.DataFrame(X, columns=[("sens" if j == pos else "f%d" % j) for j in range(3)])
    bad = pd.DataFrame(X, columns=["g%d" % j for j in range(3)])
    cr = CorrelationRemover(sensitive_feature_ids=["sens"])
    control_accepts(ctx, "refit_control:CorrelationRemover", lambda: cr.fit(good))
    expect_raise(ctx, "sensitive_feature_id_not_in_X:CorrelationRemover:refit", lambda: cr.fit(bad), {"ids": "['sens']", "columns": list(bad.columns), "fitted_before": True})


def run_not_fitted(ctx, rng, key):
    import fairlearn.reductions as red
    from fairlearn.adversarial import AdversarialFairnessClassifier, AdversarialFairnessRegressor
    from fairlearn.postprocessing import ThresholdOptimizer
    from fairlearn.postprocessing._interpolated_thresholder import InterpolatedThresholder
    from fairlearn.preprocessing import CorrelationRemover
    from sklearn.exceptions import NotFittedError

    i, _ = key
    d = base_data(rng)
    X, g = d["X"], d["g"]
    eg = red.ExponentiatedGradient(ExactLearner("cells"), red.DemographicParity())
    gs = red.GridSearch(ExactLearner("cells"), red.DemographicParity())
    to = ThresholdOptimizer(estimator=TL.ScoreColumn(), predict_method="predict")
    it = InterpolatedThresholder(TL.ScoreColumn(), {}, prefit=False, predict_method="predict")
    cells = [("ExponentiatedGradient.predict", lambda: eg.predict(X)), ("ExponentiatedGradient._pmf_predict", lambda: eg._pmf_predict(X)),
             ("GridSearch.predict", lambda: gs.predict(X)), ("GridSearch.predict_proba", lambda: gs.predict_proba(X)),
             ("ThresholdOptimizer.predict", lambda: to.predict(X, sensitive_features=g)), ("ThresholdOptimizer._pmf_predict", lambda: to._pmf_predict(X, sensitive_features=g)),
             ("InterpolatedThresholder.predict", lambda: it.predict(X, sensitive_features=g)), ("InterpolatedThresholder._pmf_predict", lambda: it._pmf_predict(X, sensitive_features=g)),
             ("CorrelationRemover.transform", lambda: CorrelationRemover(sensitive_feature_ids=[0]).transform(X)),
             ("AdversarialFairnessClassifier.predict", lambda: AdversarialFairnessClassifier(backend="torch", predictor_model=[2], adversary_model=[2]).predict(X)),
             ("AdversarialFairnessRegressor.predict", lambda: AdversarialFairnessRegressor(backend="torch", predictor_model=[2], adversary_model=[2]).predict(X)),
             ("AdversarialFairnessClassifier._raw_predict", lambda: AdversarialFairnessClassifier(backend="torch", predictor_model=[2], adversary_model=[2])._raw_predict(X)),
             ("ThresholdOptimizer.predict_prefit", lambda: ThresholdOptimizer(estimator=TL.ScoreColumn().fit(None), prefit=True, predict_method="predict").predict(X, sensitive_features=g)),
             ("ExponentiatedGradient.predict_seeded", lambda: eg.predict(X, random_state=1))]
    what, fn = cells[i % len(cells)]
    ctx.ev("not_fitted_cells")
    expect_raise(ctx, "predict_before_fit:" + what, fn, {"call": what}, must_be=NotFittedError)
