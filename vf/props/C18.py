"""C18 Bootstrap intervals are reproducible, ordered and shaped like the estimates."""
from __future__ import annotations

import math

import numpy as np
import pandas as pd

from vf import gen
from vf.common import close, isnan, rng_for
from vf.monitors.recording import RecordingMetric

ID = "C18"
DECIDING = ["ci_structures_compared", "monotonicity_checks", "resamples_observed", "reproducibility_pairs", "ci_values_bracketed"]
BUDGET = {"quick": 150, "thorough": 1500}
ANCHORED = ["generate_bootstrap_samples", "generate_single_bootstrap_sample", "calculate_pandas_quantiles", "_align_sample_indices",
            "MetricFrame._populate_results_ci"]
RULE = ("random frames: n<=40, 1..2 sensitive x 0..1 control features (skewed so that groups vanish in some resamples), "
        "callable/dict metrics, n_boot in {1,2,5,12,30,100}, 1..4 quantiles in arbitrary order (a value repeated in 20% of the cases), integer seeds incl. 0; entry index order = estimate's order. "
        "compose: RecordingMetric on id-valued data - every full-size invocation is one resample whose exact row multiset is "
        "observed (size n, ids from the data, row triples intact, duplicates present, resamples differ, every row drawn "
        "somewhere, identical sequence for an equal seed; each statistical claim is only asserted where its false-alarm "
        "probability is < 1e-12, computed from n and n_boot). structure: every *_ci accessor vs its point estimate (list "
        "length, type, columns, index), element-wise monotonicity in the quantile, count==n at every quantile, constant "
        "metric, positive width of (0.01,0.99) for varying data. reference: a dict of {RecordingMetric, weighted mean} - the "
        "recorded resamples give the per-resample by_group/overall/min/max/difference/ratio of the weighted mean from first "
        "principles and every *_ci value must lie between the order statistics that bracket the requested quantile under "
        "any interpolation convention. distinct = distinct (class, n, group sizes, #control, form, "
        "n_boot, #quantiles); non-trivial = n>=2 and n_boot>=2.")
ASSUMPTIONS = ["integer random_state", "scalar metrics", "rows of a resample may reach the metric in any order"]
NBOOTS = [1, 2, 5, 12, 30, 100]
SEEDS = [0, 1, 7, 42, 2 ** 31 - 1, 123456789]


def cases(tier, seed):
    k = 130 if tier == "quick" else 5000
    return [("compose", i) for i in range(k)] + [("structure", i) for i in range(k)] + [("reference", i) for i in range(k)] + [("reference_control", i) for i in range(k // 2)] + [("reference_int", i) for i in range(k // 2)]


def _quantiles(rng):
    pool = [0.01, 0.05, 0.1, 0.25, 0.5, 0.75, 0.9, 0.95, 0.99, 0.333]
    k = int(rng.integers(1, 5))
    qs = [float(pool[i]) for i in rng.permutation(len(pool))[:k]]
    if rng.random() < 0.2:   # a requested quantile may be repeated: still one entry per REQUESTED quantile
        qs.insert(int(rng.integers(0, len(qs) + 1)), qs[int(rng.integers(0, len(qs)))])
    return qs


def _kind(x):
    if isinstance(x, pd.DataFrame):
        return "DataFrame"
    if isinstance(x, pd.Series):
        return "Series"
    if np.ndim(x) == 0:
        return "scalar"
    return type(x).__name__


def _idx_set(x):
    return set(map(repr, x.index))


def _compare_structure(ctx, what, ci_list, point, quantiles, wit):
    ctx.ev("ci_structures_compared")
    if not ctx.check(isinstance(ci_list, list) and len(ci_list) == len(quantiles), "ci_not_one_entry_per_quantile:" + what,
                     got_type=type(ci_list).__name__, got_len=(len(ci_list) if hasattr(ci_list, "__len__") else None), wit=wit):
        return False
    ok = True
    for q, e in zip(quantiles, ci_list):
        ok &= ctx.check(_kind(e) == _kind(point), "ci_entry_type_differs_from_estimate:" + what, entry=_kind(e), estimate=_kind(point), wit=wit)
        if isinstance(point, pd.DataFrame) and isinstance(e, pd.DataFrame):
            ok &= ctx.check(list(e.columns) == list(point.columns), "ci_entry_columns_differ:" + what, entry=list(map(str, e.columns)),
                            estimate=list(map(str, point.columns)), wit=wit)
        if isinstance(point, (pd.Series, pd.DataFrame)) and isinstance(e, (pd.Series, pd.DataFrame)):
            ok &= ctx.check(_idx_set(e) <= _idx_set(point), "ci_entry_index_not_in_estimate_index:" + what, entry=sorted(_idx_set(e))[:12],
                            estimate=sorted(_idx_set(point))[:12], wit=wit)
            ok &= ctx.check(list(e.index.names) == list(point.index.names), "ci_entry_index_names_differ:" + what, wit=wit)
            pi, ei = [repr(k) for k in point.index], [repr(k) for k in e.index]
            if set(ei) <= set(pi) and len(set(ei)) == len(ei) and len(set(pi)) == len(pi):
                # same index = same labels in the same order (the estimate's order, restricted to the groups that were drawn)
                ctx.ev("ci_index_orders_compared")
                ok &= ctx.check(ei == [k for k in pi if k in set(ei)], "ci_entry_index_order_differs_from_estimate:" + what, entry=ei[:12],
                                estimate=pi[:12], quantile=q, wit=wit)
    # entries of a repeated quantile are the same value
    for i in range(len(quantiles)):
        for j in range(i + 1, len(quantiles)):
            if quantiles[i] == quantiles[j]:
                a, b = ci_list[i], ci_list[j]
                ctx.ev("repeated_quantile_entries_compared")
                same = a.equals(b) if isinstance(a, (pd.Series, pd.DataFrame)) and type(a) is type(b) else (
                    (pd.isna(a) and pd.isna(b)) or a == b) if np.ndim(a) == 0 and np.ndim(b) == 0 else False
                ok &= ctx.check(bool(same), "entries_of_a_repeated_quantile_differ:" + what, quantile=quantiles[i], first=repr(a)[:200], second=repr(b)[:200],
                                wit=wit)
    return ok


def _flat(e, point):
    """numeric vector of an entry aligned to the entry's own index (for monotonicity between entries of one list)."""
    if isinstance(e, pd.DataFrame):
        return e.sort_index().to_numpy(dtype=float).ravel()
    if isinstance(e, pd.Series):
        return e.sort_index().to_numpy(dtype=float).ravel()
    return np.asarray([e], dtype=float)


def _check_monotone(ctx, what, ci_list, quantiles, wit):
    order = np.argsort(quantiles)
    prev = None
    for i in order:
        cur = _flat(ci_list[i], None)
        if prev is not None and prev.shape == cur.shape:
            ctx.ev("monotonicity_checks")
            bad = (~np.isnan(prev)) & (~np.isnan(cur)) & (cur < prev - 1e-12 * np.maximum(1.0, np.abs(prev)))
            ctx.check(not bad.any(), "ci_not_monotone_in_quantile:" + what, sorted_quantiles=[quantiles[j] for j in order], lower=prev.tolist()[:10],
                      upper=cur.tolist()[:10], wit=wit)
        prev = cur


def _accessors(mf):
    out = {"overall": (mf.overall_ci, mf.overall), "by_group": (mf.by_group_ci, mf.by_group),
           "group_min": (mf.group_min_ci(), mf.group_min()), "group_max": (mf.group_max_ci(), mf.group_max())}
    for m in ("between_groups", "to_overall"):
        out["difference:" + m] = (mf.difference_ci(method=m), mf.difference(method=m))
        out["ratio:" + m] = (mf.ratio_ci(method=m), mf.ratio(method=m))
    return out


def _equal_obj(a, b):
    if isinstance(a, (pd.Series, pd.DataFrame)):
        return type(a) is type(b) and a.shape == b.shape and list(map(repr, a.index)) == list(map(repr, b.index)) and \
            bool(np.array_equal(a.to_numpy(dtype=float), b.to_numpy(dtype=float), equal_nan=True))
    return close(a, b, 0.0, 0.0)


def run_case(cls, key, seed, ctx):
    from fairlearn.metrics import MetricFrame

    rng = rng_for(seed, ID, cls, key)
    if cls == "compose":
        return run_compose(ctx, rng, MetricFrame)
    if cls == "reference":
        return run_reference(ctx, rng, MetricFrame)
    if cls == "reference_control":
        return run_reference_control(ctx, rng, MetricFrame)
    if cls == "reference_int":
        return run_reference_int(ctx, rng, MetricFrame)
    return run_structure(ctx, rng, MetricFrame)


def run_compose(ctx, rng, MetricFrame):
    n = int(gen.pick(rng, [1, 2, 3, 4, 6, 8, 10, 16, 25, 40]))
    k = int(rng.integers(1, 4))
    g = ["g%d" % i for i in gen.skewed_labels(rng, n, k)]
    nb = int(gen.pick(rng, NBOOTS))
    qs = _quantiles(rng)
    rs = int(gen.pick(rng, SEEDS + [int(rng.integers(0, 2 ** 31))]))
    ids = list(range(n))
    form = gen.pick(rng, ["callable", "dict"])
    wit = {"n": n, "groups": g, "n_boot": nb, "quantiles": qs, "random_state": rs, "form": form}
    sizes = sorted(pd.Series(g).value_counts().tolist())
    ctx.mark(["compose", n, sizes, form, nb, len(qs)], n >= 2 and nb >= 2, sample=wit)

    def build():
        m = RecordingMetric("rec", 0.0, ["w"])
        metrics = m if form == "callable" else {"rec": m}
        w = [i + 2 * 10 ** 6 for i in ids]
        sp = {"w": gen.as_vec(w, gen.pick(rng, ["list", "ndarray", "series"]), rng)}
        if form == "dict":
            sp = {"rec": sp}
        mf = MetricFrame(metrics=metrics, y_true=ids, y_pred=[i + 10 ** 6 for i in ids], sensitive_features=g, sample_params=sp,
                         n_boot=nb, ci_quantiles=qs, random_state=rs)
        return mf, m

    mf1, m1 = build()
    full = [rec for rec in m1.log if len(rec["y_true"]) == n]
    # the first full-size invocation is the point estimate on the data itself; one-group resamples add duplicates of a resample
    ctx.check(len(full) >= 1 + nb, "fewer_full_size_metric_invocations_than_resamples", full_size=len(full), wit=wit)
    resamples = []
    for rec in full[1:]:
        rows = m1.rows_of(rec)
        ctx.ev("resamples_observed")
        okrow = all(isinstance(r[0], int) and 0 <= r[0] < n and r[1] == r[0] + 10 ** 6 and r[2] == r[0] + 2 * 10 ** 6 for r in rows)
        ctx.check(okrow, "resample_rows_not_intact_rows_of_the_data", rows=rows[:8], wit=wit)
        resamples.append(tuple(sorted(r[0] for r in rows)))
    for rec in m1.log:
        ctx.check(len(rec["y_true"]) <= n, "metric_saw_more_than_n_rows", saw=len(rec["y_true"]), wit=wit)
    # every resample's rows sum to n: group invocations between two full-size ones partition it - checked through sizes of 'count'
    distinct = set(resamples)
    if n >= 2 and nb >= 2:
        logp = math.lgamma(n + 1) - n * math.log(n)  # log P(a resample is a permutation) = log max multiset probability
        if logp * (nb - 1) < math.log(1e-12):
            ctx.ev("resample_distinctness_checks")
            ctx.check(len(distinct) >= 2, "all_resamples_identical", n_resamples=len(resamples), wit=wit)
        if logp * nb < math.log(1e-12):
            ctx.ev("with_replacement_checks")
            ctx.check(any(len(set(r)) < len(r) for r in resamples), "no_resample_contains_a_repeated_row", wit=wit)
        if n * nb * math.log(1 - 1.0 / n) + math.log(n) < math.log(1e-12):
            ctx.ev("row_coverage_checks")
            seen = set(i for r in resamples for i in r)
            ctx.check(len(seen) == n, "some_rows_are_never_drawn", never_drawn=sorted(set(range(n)) - seen), wit=wit)
    # same integer seed -> same resamples and same results
    mf2, m2 = build()
    full2 = [tuple(sorted(m2.rows_of(rec))) for rec in m2.log if len(rec["y_true"]) == n]
    full1 = [tuple(sorted(m1.rows_of(rec))) for rec in full]
    ctx.ev("reproducibility_pairs")
    ctx.check(full1 == full2, "same_seed_different_resamples", first=[list(map(list, f))[:3] for f in full1[1:3]],
              second=[list(map(list, f))[:3] for f in full2[1:3]], wit=wit)


def varying(y_true, y_pred):
    return float(np.mean(y_pred))


def constant(y_true, y_pred):
    return 0.625


class LoggedMean:
    """mean(y_pred), undefined (NaN) on slices made only of `nan_rows`; logs the row ids (y_true) of every slice it is given."""

    __name__ = "logged_mean"

    def __init__(self, nan_rows=()):
        self.nan_rows = frozenset(nan_rows)
        self.calls = []

    def __call__(self, y_true, y_pred):
        ids = frozenset(int(v) for v in np.asarray(y_true).tolist())
        self.calls.append(ids)
        if ids and ids <= self.nan_rows:
            return float("nan")
        return float(np.mean(y_pred))


def run_structure(ctx, rng, MetricFrame):
    from fairlearn.metrics import count

    n = int(gen.pick(rng, [2, 3, 4, 6, 8, 12, 20, 40]))
    nsf = int(gen.pick(rng, [1, 1, 2]))
    nctl = int(gen.pick(rng, [0, 0, 1]))
    sf = pd.DataFrame({"s%d" % j: ["v%d" % i for i in gen.skewed_labels(rng, n, int(rng.integers(1, 4)))] for j in range(nsf)})
    cf = pd.Series(["c%d" % i for i in gen.skewed_labels(rng, n, 2)], name="ctl") if nctl else None
    nb = int(gen.pick(rng, NBOOTS))
    qs = _quantiles(rng)
    wide = rng.random() < 0.5
    if wide:
        qs = [0.01, 0.99] if rng.random() < 0.5 else [0.99, 0.5, 0.01]
    rs = int(gen.pick(rng, SEEDS + [int(rng.integers(0, 2 ** 31))]))
    y_pred = (rng.permutation(n) * 1.0 + rng.random()).round(3).tolist()
    form = gen.pick(rng, ["callable", "dict", "callable_undefined_for_a_group"])
    logged = None
    if form == "callable_undefined_for_a_group":
        # a metric that is undefined (NaN) on one sensitive value's rows - like precision without positive predictions: the group
        # still occurs in the resamples, so its row belongs in every by_group_ci entry
        v0 = sf.iloc[0, 0]
        logged = LoggedMean([i for i in range(n) if sf.iloc[i, 0] == v0] if rng.random() < 0.8 else [])
    metrics = varying if form == "callable" else ({"count": count, "const": constant, "vary": varying} if form == "dict" else logged)
    wit = {"n": n, "sensitive": sf.to_dict("list"), "control": None if cf is None else cf.tolist(), "n_boot": nb, "quantiles": qs,
           "random_state": rs, "form": form, "y_pred": y_pred}
    ctx.mark(["structure", n, nsf, nctl, form, nb, len(qs), sorted(sf.value_counts().tolist())], n >= 2 and nb >= 2, sample=wit)
    kw = dict(metrics=metrics, y_true=list(range(n)), y_pred=y_pred, sensitive_features=sf, control_features=cf, n_boot=nb,
              ci_quantiles=qs, random_state=rs)
    mf = MetricFrame(**kw)
    acc = _accessors(mf)
    for what, (ci, point) in acc.items():
        if _compare_structure(ctx, what, ci, point, qs, wit):
            _check_monotone(ctx, what, ci, qs, wit)
    if logged is not None:
        point = mf.by_group
        cols = [sf[c].tolist() for c in sf.columns]
        ctl = None if cf is None else cf.tolist()
        for key in point.index:
            kt = key if isinstance(key, tuple) else (key,)
            want = ([kt[0]] if ctl is not None else []), list(kt[1:] if ctl is not None else kt)
            rows = frozenset(i for i in range(n) if (ctl is None or ctl[i] == want[0][0]) and all(cols[j][i] == want[1][j] for j in range(len(cols))))
            # every slice made only of this cell's rows; the point estimate accounts for at most 2 of them (3 with control features),
            # so 5 or more means the cell occurred in resamples (an under-approximation, which is the safe side)
            seen = sum(1 for ids in logged.calls if ids and ids <= rows)
            if rows and seen >= 5:
                ctx.ev("resampled_group_rows_checked")
                missing = [qs[qi] for qi, e in enumerate(mf.by_group_ci) if isinstance(e, (pd.Series, pd.DataFrame)) and key not in e.index]
                ctx.check(not missing, "group_that_occurs_in_resamples_is_missing_from_by_group_ci", group=repr(key), slices_seen=seen, quantiles_missing=missing,
                          metric_undefined_on_group=bool(rows <= logged.nan_rows), wit=wit)
        kw["metrics"] = LoggedMean(logged.nan_rows)
    # reproducibility of every accessor
    mf2 = MetricFrame(**kw)
    for what, (ci2, _) in _accessors(mf2).items():
        ci1 = acc[what][0]
        ctx.ev("reproducibility_pairs")
        same = isinstance(ci1, list) and isinstance(ci2, list) and len(ci1) == len(ci2) and all(_equal_obj(a, b) for a, b in zip(ci1, ci2))
        ctx.check(same, "same_seed_different_ci:" + what, wit=wit)
    if form == "dict":
        for qi, q in enumerate(qs):
            ov = mf.overall_ci[qi]
            ctx.ev("count_and_constant_checks")
            if nctl == 0:
                ctx.check(close(ov["count"], n, 0, 0), "overall_row_count_not_n", quantile=q, got=repr(ov["count"]), wit=wit)
                ctx.check(close(ov["const"], 0.625, 1e-12), "constant_metric_quantile_differs_from_estimate", got=repr(ov["const"]), wit=wit)
            else:
                tot = float(np.nansum(ov["count"].to_numpy(dtype=float)))
                vals = ov["const"].to_numpy(dtype=float)
                ctx.check(all(isnan(v) or close(v, 0.625, 1e-12) for v in vals), "constant_metric_quantile_differs_from_estimate", got=vals.tolist(), wit=wit)
                ctx.notes["control_count_total"] = tot
            bg = mf.by_group_ci[qi]["const"].to_numpy(dtype=float)
            ctx.check(all(isnan(v) or close(v, 0.625, 1e-12) for v in bg), "constant_metric_quantile_differs_from_estimate:by_group", got=bg.tolist(), wit=wit)
            for m in ("between_groups", "to_overall"):
                d = np.asarray(mf.difference_ci(method=m)[qi]["const"], dtype=float).ravel()
                ctx.check(all(isnan(v) or abs(v) <= 1e-12 for v in d), "constant_metric_difference_ci_not_zero", method=m, got=d.tolist(), wit=wit)
    # positive width for varying data (P[all resample means equal] is far below 1e-12 for n>=4 distinct values, n_boot>=30)
    if wide and nb >= 30 and n >= 4 and nctl == 0 and logged is None:
        lo, hi = mf.overall_ci[qs.index(0.01)], mf.overall_ci[qs.index(0.99)]
        if form == "dict":
            lo, hi = lo["vary"], hi["vary"]
        ctx.ev("positive_width_checks")
        ctx.check(float(hi) > float(lo), "wide_quantile_pair_has_zero_width_on_varying_data", lo=repr(lo), hi=repr(hi), wit=wit)
        mean = float(np.mean(y_pred))
        spread = float(np.max(y_pred) - np.min(y_pred))
        ctx.check(float(lo) - 1e-9 <= mean + spread and float(hi) + 1e-9 >= mean - spread, "interval_far_from_data_range", lo=repr(lo), hi=repr(hi))


def wmean(y_true, y_pred, sample_weight=None):
    w = np.asarray(sample_weight, dtype=float)
    return float(np.dot(np.asarray(y_pred, dtype=float), w) / w.sum())


def _bracket(stats, q):
    """[lo, hi] that contains the q-quantile of stats under every common interpolation convention (NaNs ignored)."""
    s = sorted(v for v in stats if not isnan(v))
    B = len(s)
    if B == 0:
        return None
    lo = max(1, int(math.floor(B * q)))
    hi = min(B, int(math.ceil(B * q + 1)))
    return s[lo - 1], s[hi - 1]


def run_reference(ctx, rng, MetricFrame):
    from vf.refs import rates as R

    n = int(gen.pick(rng, [3, 5, 8, 12, 20, 30]))
    k = int(rng.integers(2, 4))
    g = ["g%d" % i for i in gen.skewed_labels(rng, n, k)]
    nb = int(gen.pick(rng, [2, 5, 12, 30]))
    if rng.random() < 0.3:
        # several rare (single-row) groups and very few resamples: resamples that keep the same NUMBER of groups but not the same set
        n = int(gen.pick(rng, [4, 5, 6, 8]))
        n_rare = int(gen.pick(rng, [2, 3]))
        g = ["rare%d" % i for i in range(n_rare)] + ["big"] * (n - n_rare)
        g = [g[i] for i in rng.permutation(n)]
        nb = int(gen.pick(rng, [2, 3, 4]))
    qs = _quantiles(rng)
    rs = int(gen.pick(rng, SEEDS + [int(rng.integers(0, 2 ** 31))]))
    ids = list(range(n))
    vals = np.round(rng.uniform(0.5, 5.0, size=n), 3)
    w = np.round(rng.uniform(0.2, 3.0, size=n), 2)
    rec = RecordingMetric("rec", 0.0, [])
    mf = MetricFrame(metrics={"rec": rec, "wm": wmean}, y_true=ids, y_pred=vals.tolist(), sensitive_features=g,
                     sample_params={"wm": {"sample_weight": w.tolist()}}, n_boot=nb, ci_quantiles=qs, random_state=rs)
    wit = {"n": n, "groups": g, "values": vals.tolist(), "weights": w.tolist(), "n_boot": nb, "quantiles": qs, "random_state": rs}
    ctx.mark(["reference", n, sorted(pd.Series(g).value_counts().tolist()), nb, len(qs)], nb >= 2, sample=wit)
    # parse the recorded history: [overall(n rows), groups...] per MetricFrame evaluation; the first block is the point estimate
    blocks, i, log = [], 0, rec.log
    while i < len(log):
        if len(log[i]["y_true"]) != n:
            ctx.ev("resample_history_not_parsed")
            return
        rows = list(log[i]["y_true"])
        j, tot = i + 1, 0
        while j < len(log) and tot < n:
            tot += len(log[j]["y_true"])
            j += 1
        if tot != n:
            ctx.ev("resample_history_not_parsed")
            return
        blocks.append(rows)
        i = j
    if len(blocks) != nb + 1:
        ctx.ev("resample_history_not_parsed")
        return
    gl = sorted(set(g))
    stats = {"overall": [], "group_min": [], "group_max": [], "difference:between_groups": [], "difference:to_overall": [],
             "ratio:between_groups": [], "ratio:to_overall": []}
    bystats = {gv: [] for gv in gl}
    for rows in blocks[1:]:
        def wm(rr):
            return float(np.dot(vals[rr], w[rr]) / w[rr].sum())
        o = wm(rows)
        per = {}
        for gv in gl:
            rr = [r for r in rows if g[r] == gv]
            per[gv] = wm(rr) if rr else math.nan
            bystats[gv].append(per[gv])
        pv = [v for v in per.values() if not isnan(v)]
        stats["overall"].append(o)
        stats["group_min"].append(min(pv))
        stats["group_max"].append(max(pv))
        for m in ("between_groups", "to_overall"):
            stats["difference:" + m].append(R.agg_difference(pv, o, m))
            stats["ratio:" + m].append(R.agg_ratio(pv, o, m))
    acc = _accessors(mf)
    for qi, q in enumerate(qs):
        for what, st in stats.items():
            br = _bracket(st, q)
            ci = acc[what][0]
            v = ci[qi]["wm"]
            ctx.ev("ci_values_bracketed")
            ctx.check(br is None or (br[0] - 1e-9 <= float(v) <= br[1] + 1e-9), "ci_value_outside_order_statistics_of_resamples:" + what,
                      quantile=q, got=repr(v), bracket=br, per_resample=st[:12], wit=wit)
        bgci = acc["by_group"][0][qi]["wm"]
        for gv in gl:
            br = _bracket(bystats[gv], q)
            if br is None:
                ctx.check(gv not in bgci.index or isnan(bgci[gv]), "group_absent_from_every_resample_has_a_value", group=gv, wit=wit)
                continue
            ctx.ev("ci_values_bracketed")
            ctx.check(gv in bgci.index and br[0] - 1e-9 <= float(bgci[gv]) <= br[1] + 1e-9,
                      "ci_value_outside_order_statistics_of_resamples:by_group", quantile=q, group=gv,
                      got=repr(bgci[gv]) if gv in bgci.index else "missing", bracket=br, per_resample=bystats[gv][:12], wit=wit)


def run_reference_control(ctx, rng, MetricFrame):
    """Reference bootstrap with one control feature: every statistic is per control stratum."""
    from vf.refs import rates as R

    n = int(gen.pick(rng, [6, 9, 14, 22, 30]))
    g = ["g%d" % i for i in gen.skewed_labels(rng, n, int(rng.integers(2, 4)))]
    c = ["c%d" % i for i in gen.skewed_labels(rng, n, 2)]
    nb = int(gen.pick(rng, [2, 5, 12, 30]))
    qs = _quantiles(rng)
    rs = int(gen.pick(rng, SEEDS + [int(rng.integers(0, 2 ** 31))]))
    vals = np.round(rng.uniform(0.5, 5.0, size=n), 3)
    w = np.round(rng.uniform(0.2, 3.0, size=n), 2)
    rec = RecordingMetric("rec", 0.0, [])
    mf = MetricFrame(metrics={"rec": rec, "wm": wmean}, y_true=list(range(n)), y_pred=vals.tolist(), sensitive_features={"sf": g},
                     control_features={"cf": c}, sample_params={"wm": {"sample_weight": w.tolist()}}, n_boot=nb, ci_quantiles=qs, random_state=rs)
    wit = {"n": n, "groups": g, "control": c, "values": vals.tolist(), "weights": w.tolist(), "n_boot": nb, "quantiles": qs, "random_state": rs}
    ctx.mark(["reference_control", n, sorted(pd.Series(list(zip(c, g))).value_counts().tolist()), nb, len(qs)], nb >= 2, sample=wit)
    # every evaluation of the frame hands the metric 2n rows: the control strata (n rows) and then the cells (n rows)
    evals, cur, tot = [], [], 0
    for r_ in rec.log:
        cur.append(list(r_["y_true"]))
        tot += len(r_["y_true"])
        if tot == 2 * n:
            evals.append(cur)
            cur, tot = [], 0
        elif tot > 2 * n:
            ctx.ev("resample_history_not_parsed")
            return
    if tot != 0 or len(evals) != nb + 1:
        ctx.ev("resample_history_not_parsed")
        return
    resamples = []
    for ev_ in evals[1:]:
        rows, acc = [], 0
        for part in ev_:
            if acc >= n:
                break
            rows += part
            acc += len(part)
        if acc != n:
            ctx.ev("resample_history_not_parsed")
            return
        resamples.append(rows)
    cl, gl = sorted(set(c)), sorted(set(g))

    def wm(rr):
        return float(np.dot(vals[rr], w[rr]) / w[rr].sum())
    stats = {(k, cv): [] for cv in cl for k in ("overall", "group_min", "group_max", "difference:between_groups", "difference:to_overall",
                                                  "ratio:between_groups", "ratio:to_overall")}
    cellstats = {(cv, gv): [] for cv in cl for gv in gl}
    for rows in resamples:
        for cv in cl:
            rc = [r_ for r_ in rows if c[r_] == cv]
            per = {}
            for gv in gl:
                rr = [r_ for r_ in rc if g[r_] == gv]
                per[gv] = wm(rr) if rr else math.nan
                cellstats[(cv, gv)].append(per[gv])
            pv = [v for v in per.values() if not isnan(v)]
            if not rc:
                for k in ("overall", "group_min", "group_max", "difference:between_groups", "difference:to_overall", "ratio:between_groups", "ratio:to_overall"):
                    stats[(k, cv)].append(math.nan)
                continue
            o = wm(rc)
            stats[("overall", cv)].append(o)
            stats[("group_min", cv)].append(min(pv))
            stats[("group_max", cv)].append(max(pv))
            for m in ("between_groups", "to_overall"):
                stats[("difference:" + m, cv)].append(R.agg_difference(pv, o, m))
                stats[("ratio:" + m, cv)].append(R.agg_ratio(pv, o, m))
    acc = _accessors(mf)
    for qi, q in enumerate(qs):
        for (what, cv), st in stats.items():
            br = _bracket(st, q)
            df = acc[what][0][qi]
            ctx.ev("ci_values_bracketed")
            if br is None:
                continue
            ok = cv in df.index and br[0] - 1e-9 <= float(df.loc[cv, "wm"]) <= br[1] + 1e-9
            ctx.check(ok, "ci_value_outside_order_statistics_of_resamples:control:" + what, quantile=q, stratum=cv,
                      got=repr(df.loc[cv, "wm"]) if cv in df.index else "missing", bracket=br, per_resample=st[:12], wit=wit)
        bg = acc["by_group"][0][qi]
        for (cv, gv), st in cellstats.items():
            br = _bracket(st, q)
            present = (cv, gv) in bg.index
            if br is None:
                ctx.check((not present) or isnan(bg.loc[(cv, gv), "wm"]), "cell_absent_from_every_resample_has_a_value", cell=[cv, gv], wit=wit)
                continue
            ctx.ev("ci_values_bracketed")
            ctx.check(present and br[0] - 1e-9 <= float(bg.loc[(cv, gv), "wm"]) <= br[1] + 1e-9, "ci_value_outside_order_statistics_of_resamples:control:by_group",
                      quantile=q, cell=[cv, gv], got=repr(bg.loc[(cv, gv), "wm"]) if present else "missing", bracket=br, per_resample=st[:12], wit=wit)


def int_metric(y_true, y_pred):
    """an integer-valued metric: how many rows of the (sub)sample have a prediction above 2.5 (numpy integer, like count)"""
    return int(np.sum(np.asarray(y_pred, dtype=float) > 2.5))


def run_reference_int(ctx, rng, MetricFrame):
    """A frame whose ONLY metric is integer valued (all-integer result dtypes): interpolated quantiles must survive.
    The resamples are learnt from a recording frame with the same n / seed / n_boot (and confirmed on a mixed frame)."""
    n = int(gen.pick(rng, [4, 6, 9, 14, 22]))
    g = ["g%d" % i for i in gen.skewed_labels(rng, n, 2)]
    nb = int(gen.pick(rng, [2, 4, 12, 30, 100]))
    qs = [0.01, 0.99] if rng.random() < 0.6 else [0.99, 0.5, 0.01]
    rs = int(gen.pick(rng, SEEDS + [int(rng.integers(0, 2 ** 31))]))
    vals = np.round(rng.uniform(0.5, 5.0, size=n), 3)
    ids = list(range(n))
    wit = {"n": n, "groups": g, "values": vals.tolist(), "n_boot": nb, "quantiles": qs, "random_state": rs}
    ctx.mark(["reference_int", n, sorted(pd.Series(g).value_counts().tolist()), nb, len(qs)], nb >= 2, sample=wit)

    def resamples_of(metrics):
        recs = [m for m in (metrics.values() if isinstance(metrics, dict) else [metrics]) if isinstance(m, RecordingMetric)]
        MetricFrame(metrics=metrics, y_true=ids, y_pred=vals.tolist(), sensitive_features=g, n_boot=nb, ci_quantiles=qs, random_state=rs)
        blocks, i, log = [], 0, recs[0].log
        while i < len(log):
            if len(log[i]["y_true"]) != n:
                return None
            rows = list(log[i]["y_true"])
            j, tot = i + 1, 0
            while j < len(log) and tot < n:
                tot += len(log[j]["y_true"])
                j += 1
            if tot != n:
                return None
            blocks.append(rows)
            i = j
        return blocks[1:] if len(blocks) == nb + 1 else None
    r1 = resamples_of(RecordingMetric("rec"))
    r2 = resamples_of({"rec": RecordingMetric("rec"), "cnt": int_metric})
    if r1 is None or r2 is None or [sorted(a) for a in r1] != [sorted(b) for b in r2]:
        ctx.ev("resample_history_not_parsed")
        return
    mf = MetricFrame(metrics=int_metric, y_true=ids, y_pred=vals.tolist(), sensitive_features=g, n_boot=nb, ci_quantiles=qs, random_state=rs)
    stats = [int_metric(None, vals[rows]) for rows in r1]
    lo, hi = mf.overall_ci[qs.index(0.01)], mf.overall_ci[qs.index(0.99)]
    ctx.ev("ci_values_bracketed", 2)
    for q, v in ((0.01, lo), (0.99, hi)):
        br = _bracket(stats, q)
        ctx.check(br[0] - 1e-9 <= float(v) <= br[1] + 1e-9, "ci_value_outside_order_statistics_of_resamples:overall:integer_metric", quantile=q, got=repr(v),
                  bracket=br, per_resample=stats[:16], wit=wit)
    mean = float(np.mean(stats))
    if 2 <= nb <= 100:
        # the property: a wide pair encloses an interval around the resampling mean (for (0.01, 0.99) and n_boot <= 100 this
        # holds for every sample under the usual linear interpolation)
        ctx.ev("mean_enclosure_checks")
        ctx.check(float(lo) - 1e-9 <= mean <= float(hi) + 1e-9, "wide_quantile_pair_does_not_enclose_the_resampling_mean:integer_metric", lo=repr(lo), hi=repr(hi),
                  resampling_mean=mean, per_resample=stats[:16], wit=wit)
        if len(set(stats)) > 1:
            ctx.check(float(hi) > float(lo), "wide_quantile_pair_has_zero_width_on_varying_data:integer_metric", lo=repr(lo), hi=repr(hi), per_resample=stats[:16], wit=wit)
