"""C05 ThresholdOptimizer returns the best parity-satisfying threshold rule on its grid."""
from __future__ import annotations

import numpy as np

from vf import gen
from vf.common import rng_for
from vf.props import _tolib as TL
from vf.refs import threshold_opt as RT

ID = "C05"
DECIDING = ["objective_values_compared", "grid_membership_checks"]
BUDGET = {"quick": 200, "thorough": 1800}
ANCHORED = ["_filter_points_to_get_convex_hull", "_interpolate_curve", "ThresholdOptimizer._threshold_optimization_for_simple_constraints",
            "ThresholdOptimizer._threshold_optimization_for_equalized_odds"]
RULE = ("same generators as C04 (exhaustive multisets of sizes 4..5 quick / 4..6 thorough with a rotating configuration; random "
        "datasets with at most 8 distinct scores per group). Oracle (refs/threshold_opt.py): per group all threshold rules "
        "(+flipped when flip) are enumerated, their (constraint, objective) points counted, the concave envelope evaluated by brute "
        "force over all point pairs; optimum = max over grid x of the frequency-weighted sum of envelopes (single-metric "
        "constraints) or of the overall accuracy / balanced accuracy at (x, min_g envelope_g(x)) (equalized odds). The expected "
        "objective of the fitted rule (from _pmf_predict on the training rows) must equal that optimum within 1e-9, the common "
        "constraint value must be a grid point, and the rule must not lose to the best constant classifier. A sample is "
        "cross-checked by a linear program over per-group mixtures. distinct as in C04; non-trivial = groups differ.")
ASSUMPTIONS = ["every group contains both labels", "ties in the arg-max are fine: objective values are compared, not grid indices",
               "tolerance 1e-9"]
EXHAUSTIVE = {"quick": ["exh: all multisets of sizes 4..5 (one configuration per multiset from the rotating schedule)"],
              "thorough": ["exh: all multisets of sizes 4..6"]}

_MS = {}


def _ms(tier):
    if tier not in _MS:
        _MS[tier] = TL.exhaustive_multisets(5 if tier == "quick" else 6)
    return _MS[tier]


def cases(tier, seed):
    out = [("exh", i) for i in range(len(_ms(tier)))]
    k = 1200 if tier == "quick" else 40000
    return out + [("rand", i) for i in range(k)]


def lp_optimum_simple(groups, constraint, objective, flip, x):
    """max sum_g n_g/n sum_r q_{g,r} obj_{g,r}  s.t. sum_r q_{g,r} x_{g,r} = x, q_g in simplex (scipy HiGHS)."""
    from scipy.optimize import linprog

    xm = RT.SIMPLE[constraint]
    n = sum(len(v[0]) for v in groups.values())
    c, Aeq, beq, col = [], [], [], 0
    blocks = []
    for g, (s, l) in groups.items():
        pts = RT.group_points(s, l, xm, objective, flip)
        blocks.append((col, len(pts), pts, len(s) / n))
        col += len(pts)
    for (start, m, pts, wgt) in blocks:
        c += [-wgt * p[1] for p in pts]
    for (start, m, pts, wgt) in blocks:
        r1 = [0.0] * col
        r2 = [0.0] * col
        for j, p in enumerate(pts):
            r1[start + j] = 1.0
            r2[start + j] = p[0]
        Aeq += [r1, r2]
        beq += [1.0, x]
    res = linprog(c, A_eq=np.array(Aeq), b_eq=np.array(beq), bounds=[(0, 1)] * col, method="highs")
    return None if not res.success else -res.fun


def run_case(cls, key, seed, ctx):
    rng = rng_for(seed, ID, cls, key)
    if cls == "exh":
        combo = _ms(ctx.tier)[key]
        g, y, s = TL.rows_of_multiset(combo, levels=gen.pick(rng, [(0.0, 1.0, 2.0), (0.0, 0.5, 1.0), (-1.0, 0.0, 3.0)]))
        constraint, objective, flip, gs = TL.config_schedule(key + 7 * seed + 3)
        hostile, fam = False, "levels3"
    else:
        g, y, s, fam = TL.random_dataset(rng, kmax=4, nmax=30, max_levels=8)
        constraint, objective, flip, gs = TL.config_random(rng)
        hostile = True
    wit = {"groups": g, "labels": y, "scores": s, "constraint": constraint, "objective": objective, "flip": flip, "grid_size": gs}
    dists = {tuple(sorted((s[i], y[i]) for i in range(len(g)) if g[i] == gv)) for gv in set(g)}
    ctx.mark(TL.signature(g, y, s, constraint, objective, flip, gs) + [fam], len(dists) >= 2, sample=wit)
    if cls == "rand" and rng.random() < 0.15 and max(abs(v) for v in s) < 1e6:
        X = np.column_stack([np.asarray(s, float), rng.normal(size=len(y))])
        to, s2, kind_ = TL.fit_optimizer_sklearn(g, y, X, constraint, objective, flip, gs, rng)
        sf = g
        # the reference enumerates the threshold rules of the scores the fitted estimator really produces
        s = [float(v) for v in s2]
        wit = dict(wit, estimator=kind_, scores=s)
        ctx.ev("sklearn_estimator_fits")
        if max(len(set(s[i] for i in range(len(s)) if g[i] == gv)) for gv in set(g)) > 14:
            ctx.ev("skipped_too_many_score_levels_for_reference")
            return
    else:
        to, X, sf = TL.fit_optimizer(g, y, s, constraint, objective, flip, gs, rng, hostile=hostile)
    p1 = np.asarray(to._pmf_predict(X, sensitive_features=sf))[:, 1]
    ya = np.asarray(y)
    groups = TL.groups_dict(g, y, s)
    n = len(y)
    idict = {repr(k): {kk: repr(vv) for kk, vv in v.items()} for k, v in to.interpolated_thresholder_.interpolation_dict.items()}
    if constraint == "equalized_odds":
        best, bestx, besty = RT.optimum_eo(groups, objective, flip, gs)
        got = RT.expected_metric(objective, p1, ya)
        xs = [RT.expected_metric("false_positive_rate", p1[[i for i in range(n) if g[i] == gv]], ya[[i for i in range(n) if g[i] == gv]]) for gv in groups]
        const = max(RT.expected_metric(objective, np.zeros(n), ya), RT.expected_metric(objective, np.ones(n), ya))
    else:
        best, bestx, curve = RT.optimum_simple(groups, constraint, objective, flip, gs)
        got = 0.0
        xs = []
        for gv in groups:
            rows = [i for i in range(n) if g[i] == gv]
            got += len(rows) / n * RT.expected_metric(objective, p1[rows], ya[rows])
            xs.append(RT.expected_metric(RT.SIMPLE[constraint], p1[rows], ya[rows]))
        const = max(sum(len(v[0]) / n * RT.expected_metric(objective, np.full(len(v[0]), c), np.asarray(v[1])) for v in groups.values())
                    for c in (0.0, 1.0))
    ctx.ev("objective_values_compared")
    ctx.check(best is not None and abs(got - best) <= 1e-9, "fitted_rule_objective_differs_from_optimum_of_the_stated_family", fitted=got,
              optimum=best, optimum_x=bestx, interpolation=idict, wit=wit)
    ctx.check(got >= const - 1e-9, "fitted_rule_worse_than_best_constant_classifier", fitted=got, best_constant=const, interpolation=idict, wit=wit)
    xbar = float(np.mean(xs))
    ctx.ev("grid_membership_checks")
    ctx.check(abs(xbar * gs - round(xbar * gs)) <= 1e-7 * max(1, gs), "common_constraint_value_not_on_the_grid", value=xbar, per_group=xs, wit=wit)
    if constraint != "equalized_odds" and (cls == "rand" and key % 5 == 0) and bestx is not None:
        lp = lp_optimum_simple(groups, constraint, objective, flip, bestx)
        if lp is not None:
            ctx.ev("lp_cross_checks")
            ctx.check(abs(lp - best) <= 1e-7, "reference_envelope_disagrees_with_linear_program", envelope=best, lp=lp, wit=wit)
