"""C15 CorrelationRemover output is uncorrelated with every sensitive column."""
from __future__ import annotations

import numpy as np
import pandas as pd

from vf import gen
from vf.common import rng_for
from vf.refs import corr as RC

ID = "C15"
DECIDING = ["train_outputs_compared", "covariances_checked", "new_data_outputs_compared", "affinity_checks"]
BUDGET = {"quick": 90, "thorough": 900}
ANCHORED = ["CorrelationRemover.fit", "CorrelationRemover.transform", "CorrelationRemover._split_X", "CorrelationRemover._create_lookup"]
RULE = ("random real matrices: n in 2..40 rows, 1..4 sensitive and 1..5 other columns at arbitrary positions, ids in arbitrary "
        "order, by position (ndarray) or by name (DataFrame; labels are strings, digit strings, integers that permute the positions or integers outside 0..p-1), columns with very different means/scales, a share with collinear, "
        "duplicated or constant sensitive columns and with n <= #sensitive; alpha in {0,0.3,1}. Oracle: per-column centring + "
        "pseudo-inverse projection (refs/corr.py); covariance of every alpha=1 output column with every sensitive column; "
        "transform on new data vs the learned affine map (full rank) or train-consistency + affinity (rank deficient); "
        "refit class: the same object refitted on data with permuted/other columns must behave like a fresh one. "
        "distinct = distinct (n, #sensitive, #other, positions, container, alpha, rank class, scale class); "
        "non-trivial = >=1 sensitive column with non-zero variance.")
ASSUMPTIONS = ["finite real inputs", "tolerance 1e-8 x (1 + max|X|)^2; rank-deficient sensitive blocks: coefficients are not unique, "
               "so new-data outputs are only required to be affine and consistent on the training data"]


def cases(tier, seed):
    k = 2600 if tier == "quick" else 90000
    return [("random", i) for i in range(k)] + [("refit", i) for i in range(k // 6)]


def gen_matrix(rng, n, p):
    style = gen.pick(rng, ["normal", "shifted", "scaled", "ints"])
    if style == "ints":
        X = rng.integers(-3, 4, size=(n, p)).astype(float)
    else:
        X = rng.normal(size=(n, p))
        if style in ("shifted", "scaled"):
            X = X + rng.uniform(-50, 50, size=p)
        if style == "scaled":
            X = X * rng.choice([1e-3, 1.0, 1e3], size=p)
    return X, style


def run_case(cls, key, seed, ctx):
    from fairlearn.preprocessing import CorrelationRemover

    rng = rng_for(seed, ID, cls, key)
    n = int(gen.pick(rng, [2, 3, 4, 5, 8, 12, 20, 40]))
    ns = int(rng.integers(1, 5))
    no = int(rng.integers(1, 6))
    p = ns + no
    X, style = gen_matrix(rng, n, p)
    sens_pos = [int(v) for v in rng.permutation(p)[:ns]]
    rank_class = "generic"
    r = rng.random()
    if ns >= 2 and r < 0.15:
        X[:, sens_pos[1]] = 2 * X[:, sens_pos[0]] - 1  # collinear
        rank_class = "collinear"
    elif r < 0.25:
        X[:, sens_pos[-1]] = float(rng.integers(-2, 3))  # constant sensitive column
        rank_class = "constant"
    elif ns >= 2 and r < 0.32:
        X[:, sens_pos[1]] = X[:, sens_pos[0]]
        rank_class = "duplicate"
    elif ns >= 2 and r < 0.42:
        # a complete set of one-hot dummies of one categorical variable: exactly collinear after centring, in exact 0/1 arithmetic
        cat = rng.integers(0, ns, size=n)
        cat[:ns] = np.arange(ns)[: len(cat[:ns])]
        for j, pos_ in enumerate(sens_pos):
            X[:, pos_] = (cat == j).astype(float)
        rank_class = "onehot"
    alpha = float(gen.pick(rng, [1.0, 1.0, 0.3, 0.0]))
    use_df = rng.random() < 0.5
    # column labels of the DataFrame variant: strings, integer labels that are a permutation of the positions (a label is then a
    # valid but WRONG position), integers outside 0..p-1, or digit strings
    label_style = gen.pick(rng, ["str", "str", "int_permuted", "int_permuted", "int_offset", "digit_str"])
    if label_style == "str":
        names = ["col%d" % j for j in range(p)]
    elif label_style == "int_permuted":
        names = [int(v) for v in rng.permutation(p)]
    elif label_style == "int_offset":
        names = [int(v) for v in (rng.permutation(p) * 3 + 7)]
    else:
        names = [str(int(v)) for v in rng.permutation(p)]
    if use_df:
        Xin = pd.DataFrame(X, columns=names, index=gen.hostile_index(n, gen.pick(rng, gen.INDEX_KINDS), rng))
        ids = [names[j] for j in sens_pos]
    else:
        Xin = X.copy()
        ids = list(sens_pos)
    regime = RC.regime(X, sens_pos)
    full = regime == "full"
    if regime in ("ill_conditioned", "zero"):
        ctx.ev("skipped_" + regime)
        return
    noisy = regime == "noisy_deficient"
    scale = (1.0 + float(np.abs(X).max())) ** 2
    tol = 1e-8 * scale
    _, S, others = RC.split(X, sens_pos)
    ctx.mark([n, ns, no, sorted(sens_pos) == sens_pos, use_df, alpha, regime, rank_class, style],
             bool((S.std(axis=0) > 0).any()),
             sample={"X": X.tolist() if n <= 8 else X[:4].tolist(), "sensitive_feature_ids": [str(i) for i in ids], "alpha": alpha,
                     "container": "DataFrame" if use_df else "ndarray", "regime": regime, "column_labels": [repr(v) for v in names] if use_df else None})
    NK = "rank_deficient_block_with_centring_roundoff_above_lstsq_cutoff"
    wit = {"n": n, "sensitive_positions": sens_pos, "ids": [str(i) for i in ids], "alpha": alpha, "df": use_df, "column_labels": [repr(v) for v in names] if use_df else None, "rank_class": rank_class,
           "regime": regime,
           "X": X.tolist() if n * p <= 60 else "large"}
    if cls == "refit":
        return run_refit(ctx, rng, CorrelationRemover, X, sens_pos, names, alpha, tol, wit)
    cr = CorrelationRemover(sensitive_feature_ids=ids, alpha=alpha)
    out = np.asarray(cr.fit_transform(Xin))
    mu, beta = RC.fit(X, sens_pos)
    exp = RC.transform(X, sens_pos, mu, beta, alpha)
    ctx.ev("train_outputs_compared")
    if not ctx.check(out.shape == exp.shape, "output_shape_wrong", got=list(out.shape), expected=list(exp.shape), wit=wit):
        return
    ctx.check(bool(np.allclose(out, exp, rtol=1e-7, atol=tol)), NK if noisy else "fit_transform_differs_from_least_squares_residual_blend",
              max_abs_err=float(np.abs(out - exp).max()), tol=tol, wit=wit)
    if alpha == 0.0:
        ctx.check(bool(np.allclose(out, X[:, others], rtol=0, atol=1e-12 * scale)), "alpha0_changes_or_reorders_columns", wit=wit)
    if alpha == 1.0:
        Sc = S - S.mean(axis=0)
        cov = (out - out.mean(axis=0)).T @ Sc / max(1, n - 1)
        ctx.ev("covariances_checked", int(cov.size))
        ctx.check(float(np.abs(cov).max()) <= tol, NK if noisy else "output_covariance_with_sensitive_column_not_zero", max_abs_cov=float(np.abs(cov).max()),
                  tol=tol, wit=wit)
    # transform on the training data again and on new data
    again = np.asarray(cr.transform(Xin))
    ctx.check(bool(np.allclose(again, out, rtol=1e-9, atol=tol * 1e-2)), NK if noisy else "transform_on_training_data_differs_from_fit_transform", wit=wit)
    m = int(rng.integers(1, 9))
    X1, _ = gen_matrix(rng, m, X.shape[1])
    X2, _ = gen_matrix(rng, m, X.shape[1])
    scale_new = (1.0 + max(float(np.abs(X1).max()), float(np.abs(X2).max()), float(np.abs(X).max()))) ** 2
    toln = 1e-7 * scale_new * (1.0 + float(np.abs(beta).max()))

    def tr(A):
        return np.asarray(cr.transform(pd.DataFrame(A, columns=names) if use_df else A))
    o1, o2 = tr(X1), tr(X2)
    if full:
        ctx.ev("new_data_outputs_compared")
        e1 = RC.transform(X1, sens_pos, mu, beta, alpha)
        ctx.check(bool(np.allclose(o1, e1, rtol=1e-6, atol=toln)), "transform_on_new_data_is_not_the_learned_affine_map",
                  max_abs_err=float(np.abs(o1 - e1).max()), tol=toln, wit=wit)
    if noisy:
        return
    a = float(rng.uniform(-1, 2))
    o3 = tr(a * X1 + (1 - a) * X2)
    ctx.ev("affinity_checks")
    ctx.check(bool(np.allclose(o3, a * o1 + (1 - a) * o2, rtol=1e-6, atol=toln * 10)), "transform_is_not_affine",
              max_abs_err=float(np.abs(o3 - (a * o1 + (1 - a) * o2)).max()), wit=wit)


def run_refit(ctx, rng, CorrelationRemover, X, sens_pos, names, alpha, tol, wit):
    """Same estimator object fitted twice (same width): the second fit must be what a fresh estimator learns."""
    n, p = X.shape
    perm = [int(v) for v in rng.permutation(p)]
    X2, _ = gen_matrix(rng, int(rng.integers(2, 30)), p)
    use_df = rng.random() < 0.6
    if use_df:
        ids = [names[j] for j in sens_pos]
        A = pd.DataFrame(X, columns=names)
        B = pd.DataFrame(X2[:, perm], columns=[names[j] for j in perm])  # same columns, different order
        sens_pos_B = [perm.index(j) for j in sens_pos]
        Bm = X2[:, perm]
    else:
        ids = list(sens_pos)
        A, B, Bm, sens_pos_B = X, X2, X2, list(sens_pos)
    cr = CorrelationRemover(sensitive_feature_ids=ids, alpha=alpha)
    cr.fit(A)
    out = np.asarray(cr.fit(B).transform(B))
    if RC.regime(Bm, sens_pos_B) != "full":
        ctx.ev("skipped_refit_not_full_rank")
        return
    mu, beta = RC.fit(Bm, sens_pos_B)
    exp = RC.transform(Bm, sens_pos_B, mu, beta, alpha)
    scale = (1.0 + float(np.abs(Bm).max())) ** 2
    ctx.ev("train_outputs_compared")
    ctx.check(out.shape == exp.shape and bool(np.allclose(out, exp, rtol=1e-7, atol=1e-8 * scale)), "refit_does_not_learn_what_a_fresh_fit_learns",
              reordered_dataframe=use_df, permutation=perm, wit=wit)
