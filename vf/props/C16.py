"""C16 Adversarial training applies the documented projected-gradient update (PyTorch engine)."""
from __future__ import annotations

import copy

import numpy as np

from vf import gen
from vf.common import rng_for

ID = "C16"
DECIDING = ["predictor_tensors_compared", "orthogonality_checks", "adversary_tensors_compared"]
BUDGET = {"quick": 200, "thorough": 1800}
ANCHORED = ["PytorchEngine.train_step", "_AdversarialFairness.partial_fit", "BackendEngine.__init__"]
RULE = ("random cases: batches of 2..16 rows with 1..5 inputs; predictor and adversary are torch modules owned by the harness (0..2 "
        "hidden layers of width 1..6, ReLU/tanh; final sigmoid / softmax / identity according to the target type) so their parameters "
        "are snapshotted before and after EVERY training step (1..3 consecutive partial_fit calls, or fit with one batch) under plain SGD (separately configured learning rates for the two optimisers; alpha may be changed through "
        "set_params between steps); binary / 3-4-class / continuous targets and sensitive features; demographic parity and equalized odds; "
        "alpha in {0,0.3,1,5}; eta in {0.01,0.1,1}; class fit_batches: fit() over several batches / epochs with shuffle on or off, a recorder wrapped around "
        "PytorchEngine.train_step from the harness checks that every step is given rows with their own target and sensitive feature and that "
        "every epoch visits every row once. Oracle (autograd on deep copies taken before the step, documented losses: BCE, "
        "cross-entropy, MSE with mean reduction): per predictor tensor (W_before-W_after)/eta = dLP/dW - proj_{dLA/dW}(dLP/dW) - "
        "alpha*dLA/dW with the Frobenius projection, <update+alpha*dLA, dLA>_F = 0, adversary tensors follow -eta*dLA/dU. "
        "distinct = distinct (target type, sensitive type, constraint, layer shapes, alpha, eta, entry point); non-trivial = some "
        "predictor tensor has >=2 rows and a non-zero adversary gradient.")
ASSUMPTIONS = ["PyTorch engine only (TensorFlow/Keras not installed in the sandbox)", "float32: tolerances 2e-4 relative + rounding of W/eta",
               "documented losses (BCELoss, CrossEntropyLoss, MSELoss, reduction='mean')"]


def cases(tier, seed):
    k = 700 if tier == "quick" else 20000
    return [("step", i) for i in range(k)] + [("fit_batches", i) for i in range(k // 5)]


_BATCHES = None  # list the train_step recorder appends to while a fit_batches case runs


def _install_recorder():
    """Class-level wrapper around PytorchEngine.train_step (attached from the harness, nothing in the repository is edited): records
    the (X, Y, A) batch every training step is given."""
    from fairlearn.adversarial._pytorch_engine import PytorchEngine

    if getattr(PytorchEngine.train_step, "_vf_recorder", False):
        return
    orig = PytorchEngine.train_step

    def train_step(self, X, Y, A):
        if _BATCHES is not None:
            _BATCHES.append((X.detach().clone().numpy(), Y.detach().clone().numpy(), A.detach().clone().numpy()))
        return orig(self, X, Y, A)

    train_step._vf_recorder = True
    PytorchEngine.train_step = train_step


def run_fit_batches(ctx, rng, torch):
    """fit() with several batches and epochs, shuffle on or off: every training step must be given rows of the data with THEIR OWN target
    and sensitive feature (the losses of the documented update are those of the batch's rows), every row once per epoch, and the
    first step must be the documented update on exactly the batch it was given."""
    global _BATCHES
    from fairlearn.adversarial import AdversarialFairnessClassifier, AdversarialFairnessRegressor

    _install_recorder()
    ykind = gen.pick(rng, ["binary", "binary", "multiclass", "continuous"])
    akind = gen.pick(rng, ["binary", "binary", "multiclass", "continuous"])
    n = int(rng.integers(6, 21))
    d = int(rng.integers(2, 5))
    X = rng.normal(size=(n, d)).round(3)
    X[:, 0] = np.arange(n)  # row id
    y_raw, Y, ny, yfinal, yloss = make_target(rng, n, ykind)
    a_raw, A, na, afinal, aloss = make_target(rng, n, akind)
    constraint = gen.pick(rng, ["demographic_parity", "equalized_odds"])
    alpha, eta = float(gen.pick(rng, [0.3, 1.0])), float(gen.pick(rng, [0.01, 0.1]))
    shuffle = bool(rng.random() < 0.7)
    bs = int(gen.pick(rng, [2, 3, 4, 5, n]))
    epochs = int(gen.pick(rng, [1, 2, 3]))
    pred = build_module(torch, rng, d, ny, yfinal)
    adv = build_module(torch, rng, ny * (2 if constraint == "equalized_odds" else 1), na, afinal)
    pred0, adv0 = copy.deepcopy(pred), copy.deepcopy(adv)
    Est = AdversarialFairnessRegressor if ykind == "continuous" else AdversarialFairnessClassifier
    est = Est(backend="torch", predictor_model=pred, adversary_model=adv,
              predictor_optimizer=lambda m: torch.optim.SGD(m.parameters(), lr=eta), adversary_optimizer=lambda m: torch.optim.SGD(m.parameters(), lr=eta),
              constraints=constraint, alpha=alpha, batch_size=bs, epochs=epochs, shuffle=shuffle, random_state=int(rng.integers(0, 1000)))
    wit = {"target": ykind, "sensitive": akind, "constraint": constraint, "n": n, "batch_size": bs, "epochs": epochs, "shuffle": shuffle}
    _BATCHES = []
    try:
        est.fit(X, y_raw, sensitive_features=a_raw)
        batches = _BATCHES
    finally:
        _BATCHES = None
    ctx.mark(["fit_batches", ykind, akind, constraint, n, bs, epochs, shuffle], shuffle and len(batches) >= 2, sample=wit)
    per_epoch = -(-n // bs)
    if not ctx.check(len(batches) == epochs * per_epoch, "number_of_training_steps_differs_from_epochs_times_batches", got=len(batches), expected=epochs * per_epoch, wit=wit):
        return
    Y2, A2 = np.asarray(Y, float).reshape(n, -1), np.asarray(A, float).reshape(n, -1)
    for e in range(epochs):
        seen = []
        for b in range(per_epoch):
            Xb, Yb, Ab = batches[e * per_epoch + b]
            ids = np.rint(Xb[:, 0]).astype(int).tolist()
            seen += ids
            ctx.ev("batch_rows_alignment_checked", len(ids))
            ok = all(0 <= i < n for i in ids) and bool(np.allclose(Xb, X[ids], atol=1e-6)) and bool(np.allclose(Yb.reshape(len(ids), -1), Y2[ids], atol=1e-6)) \
                and bool(np.allclose(Ab.reshape(len(ids), -1), A2[ids], atol=1e-6))
            ctx.check(ok, "training_step_given_rows_whose_target_or_sensitive_feature_belongs_to_another_row", epoch=e + 1, batch=b + 1, row_ids=ids,
                      sensitive_in_batch=Ab.reshape(len(ids), -1)[:6].tolist(), sensitive_of_those_rows=A2[[i for i in ids if 0 <= i < n]][:6].tolist(), wit=wit)
        ctx.check(sorted(seen) == list(range(n)), "an_epoch_does_not_visit_every_row_exactly_once", epoch=e + 1, visited=sorted(seen), wit=wit)
    if len(batches) == 1:
        ids = np.rint(batches[0][0][:, 0]).astype(int).tolist()
        check_step(ctx, torch, pred0, adv0, pred, adv, X[ids], Y[ids], A[ids], yloss, aloss, constraint, alpha, eta, 0, wit, eta)


def build_module(torch, rng, n_in, n_out, final):
    layers = []
    width = n_in
    for _ in range(int(rng.integers(0, 3))):
        h = int(rng.integers(1, 7))
        layers.append(torch.nn.Linear(width, h))
        layers.append(torch.nn.ReLU() if rng.random() < 0.5 else torch.nn.Tanh())
        width = h
    layers.append(torch.nn.Linear(width, n_out))
    if final == "sigmoid":
        layers.append(torch.nn.Sigmoid())
    elif final == "softmax":
        layers.append(torch.nn.Softmax(dim=1))
    m = torch.nn.Sequential(*layers)
    g = torch.Generator().manual_seed(int(rng.integers(0, 2 ** 31)))
    with torch.no_grad():
        for p in m.parameters():
            p.copy_(torch.randn(p.shape, generator=g) * float(gen.pick(rng, [0.3, 1.0])))
    return m


def make_target(rng, n, kind):
    """returns (raw labels as passed by the user, transformed float matrix as documented, n_out, final activation, loss name)"""
    if kind == "binary":
        y = rng.integers(0, 2, size=n)
        y[0], y[1 % n] = 0, 1
        return y, y.astype(np.float32).reshape(-1, 1), 1, "sigmoid", "bce"
    if kind == "multiclass":
        C = int(rng.integers(3, 5))
        y = rng.integers(0, C, size=n)
        y[:C] = np.arange(C)[: len(y[:C])]
        classes = sorted(set(y.tolist()))
        oh = np.zeros((n, len(classes)), dtype=np.float32)
        for i, v in enumerate(y):
            oh[i, classes.index(int(v))] = 1.0
        return y, oh, len(classes), "softmax", "ce"
    y = rng.normal(size=n).round(3) + 0.123
    return y, y.astype(np.float32).reshape(-1, 1), 1, "identity", "mse"


def loss_fn(torch, name):
    return {"bce": torch.nn.BCELoss(reduction="mean"), "ce": torch.nn.CrossEntropyLoss(reduction="mean"), "mse": torch.nn.MSELoss(reduction="mean")}[name]


def check_step(ctx, torch, pred0, adv0, pred, adv, X, Y, A, yloss, aloss, constraint, alpha, eta, step, wit, eta_adv=None):
    """One SGD step: (pred0, adv0) are copies taken before it, (pred, adv) the user-visible modules after it."""
    nontrivial = False
    wit = dict(wit, step=step + 1)
    # float32 blow-up (large eta x alpha over several steps): once parameters or losses leave the range where float32
    # arithmetic is meaningful, neither the engine's nor the reference's numbers say anything about the update RULE
    big = max([float(p.detach().abs().max()) for m_ in (pred0, adv0, pred, adv) for p in m_.parameters() if p.numel()] + [0.0])
    if not np.isfinite(big) or big > 1e4:
        ctx.ev("steps_skipped_numerically_exploded")
        return False
    # ---- reference gradients on the copies taken before the step
    Xt, Yt, At = torch.from_numpy(X).float(), torch.from_numpy(Y).float(), torch.from_numpy(A).float()
    yhat = pred0(Xt)
    LP = loss_fn(torch, yloss)(yhat, Yt)
    pparams = list(pred0.parameters())
    dLP = torch.autograd.grad(LP, pparams, retain_graph=True, allow_unused=True)
    adv_in = torch.cat((yhat, Yt), dim=1) if constraint == "equalized_odds" else yhat
    LA = loss_fn(torch, aloss)(adv0(adv_in), At)
    dLA = torch.autograd.grad(LA, pparams, retain_graph=True, allow_unused=True)
    dLA_U = torch.autograd.grad(LA, list(adv0.parameters()), allow_unused=True)
    gmax = max([float(t.abs().max()) for t in list(dLP) + list(dLA) + list(dLA_U) if t is not None and t.numel()] + [0.0])
    if not np.isfinite(gmax) or gmax > 1e6 or not np.isfinite(float(LP)) or not np.isfinite(float(LA)):
        ctx.ev("steps_skipped_numerically_exploded")
        return False
    for i, (p_before, p_after) in enumerate(zip(pparams, pred.parameters())):
        gP = dLP[i] if dLP[i] is not None else torch.zeros_like(p_before)
        gA = dLA[i] if dLA[i] is not None else torch.zeros_like(p_before)
        nrm = float(torch.sqrt(torch.sum(gA * gA)))
        if nrm > 0:
            u = gA / nrm
            expected = gP - torch.sum(u * gP) * u - alpha * gA
        else:
            expected = gP - alpha * gA
        observed = (p_before.detach() - p_after.detach()) / eta
        scale = float(expected.abs().max()) + float(gP.abs().max()) + alpha * float(gA.abs().max())
        atol = 2e-4 * scale + 4e-7 * (1.0 + float(p_before.abs().max())) / eta
        err = float((observed - expected).abs().max())
        ctx.ev("predictor_tensors_compared")
        ctx.check(err <= atol, "predictor_update_differs_from_projected_gradient_rule", tensor=i, shape=list(p_before.shape), max_abs_err=err, tol=atol,
                  observed=observed.flatten()[:6].tolist(), expected=expected.flatten()[:6].tolist(), wit=wit)
        if nrm > 1e-6 * (1 + float(gP.abs().max())) and p_before.dim() >= 1:
            resid = observed + alpha * gA
            cosv = float(torch.sum(resid * gA)) / (float(torch.sqrt(torch.sum(resid * resid))) * nrm + 1e-30)
            ctx.ev("orthogonality_checks")
            small = float(torch.sqrt(torch.sum(resid * resid))) <= 50 * atol
            ctx.check(abs(cosv) <= 2e-3 or small, "update_plus_alpha_dLA_not_orthogonal_to_dLA", tensor=i, shape=list(p_before.shape), cosine=cosv, wit=wit)
            if p_before.dim() == 2 and p_before.shape[0] >= 2:
                nontrivial = True
    for i, (u_before, u_after) in enumerate(zip(adv0.parameters(), adv.parameters())):
        gU = dLA_U[i] if dLA_U[i] is not None else torch.zeros_like(u_before)
        ea = eta if eta_adv is None else eta_adv
        observed = (u_before.detach() - u_after.detach()) / ea
        atol = 2e-4 * float(gU.abs().max()) + 4e-7 * (1.0 + float(u_before.abs().max())) / ea
        err = float((observed - gU).abs().max())
        ctx.ev("adversary_tensors_compared")
        ctx.check(err <= atol, "adversary_update_is_not_the_plain_gradient_of_its_loss", tensor=i, shape=list(u_before.shape), max_abs_err=err, tol=atol, wit=wit)
    return nontrivial


def run_case(cls, key, seed, ctx):
    import torch

    torch.set_num_threads(1)
    from fairlearn.adversarial import AdversarialFairnessClassifier, AdversarialFairnessRegressor

    rng = rng_for(seed, ID, cls, key)
    if cls == "fit_batches":
        return run_fit_batches(ctx, rng, torch)
    ykind = gen.pick(rng, ["binary", "binary", "multiclass", "continuous"])
    akind = gen.pick(rng, ["binary", "binary", "multiclass", "continuous"])
    nmin = 5 if "multiclass" in (ykind, akind) else 2
    n = int(rng.integers(nmin, 17))
    d = int(rng.integers(1, 6))
    X = rng.normal(size=(n, d)).round(3)
    y_raw, Y, ny, yfinal, yloss = make_target(rng, n, ykind)
    a_raw, A, na, afinal, aloss = make_target(rng, n, akind)
    constraint = gen.pick(rng, ["demographic_parity", "equalized_odds"])
    alpha = float(gen.pick(rng, [0.0, 0.3, 1.0, 5.0]))
    eta = float(gen.pick(rng, [0.01, 0.1, 1.0]))
    eta_adv = eta if rng.random() < 0.4 else float(gen.pick(rng, [0.01, 0.05, 0.3]))   # the two optimisers are configured separately
    entry = gen.pick(rng, ["partial_fit", "fit_one_batch"])
    pred = build_module(torch, rng, d, ny, yfinal)
    adv = build_module(torch, rng, ny * (2 if constraint == "equalized_odds" else 1), na, afinal)
    pred0, adv0 = copy.deepcopy(pred), copy.deepcopy(adv)
    Est = AdversarialFairnessRegressor if ykind == "continuous" else AdversarialFairnessClassifier
    est = Est(backend="torch", predictor_model=pred, adversary_model=adv,
              predictor_optimizer=lambda m: torch.optim.SGD(m.parameters(), lr=eta), adversary_optimizer=lambda m: torch.optim.SGD(m.parameters(), lr=eta_adv),
              constraints=constraint, alpha=alpha, batch_size=-1 if entry == "fit_one_batch" else 4, epochs=1, shuffle=False, random_state=int(rng.integers(0, 1000)))
    shapes = [tuple(p.shape) for p in pred0.parameters()]
    wit = {"target": ykind, "sensitive": akind, "constraint": constraint, "alpha": alpha, "eta": eta, "eta_adversary": eta_adv, "entry": entry, "n": n,
           "predictor_shapes": [list(s) for s in shapes], "adversary_shapes": [list(p.shape) for p in adv0.parameters()]}
    nontrivial = False
    n_steps = 1 if entry == "fit_one_batch" else int(gen.pick(rng, [1, 2, 3]))
    wit["steps"] = n_steps
    for step in range(n_steps):
        if step > 0:
            pred0, adv0 = copy.deepcopy(pred), copy.deepcopy(adv)   # state before this step
            if rng.random() < 0.5:
                # alpha is re-tuned between steps (set_params / an alpha-scheduling callback): the step uses the CURRENT alpha
                alpha = float(gen.pick(rng, [0.0, 0.3, 1.0, 5.0]))
                est.set_params(alpha=alpha)
                wit = dict(wit, alpha_changed_before_step=step + 1, alpha=alpha)
        if entry == "partial_fit":
            # later steps reuse the rows in another order (same classes, so the label transforms stay valid)
            order = np.arange(n) if step == 0 else rng.permutation(n)
            est.partial_fit(X[order], y_raw[order], sensitive_features=a_raw[order])
        else:
            order = np.arange(n)
            est.fit(X, y_raw, sensitive_features=a_raw)
            ctx.check(getattr(est, "n_iter_", None) == 1, "fit_with_one_batch_did_not_do_exactly_one_step", n_iter=getattr(est, "n_iter_", None), wit=wit)
        nontrivial |= check_step(ctx, torch, pred0, adv0, pred, adv, X[order], Y[order], A[order], yloss, aloss, constraint, alpha, eta, step, wit, eta_adv)
    ctx.mark([ykind, akind, constraint, shapes, alpha, eta, entry], nontrivial, sample=wit)
