"""C03 Named fairness metrics equal their first-principles definitions."""
from __future__ import annotations

import functools
import math

import numpy as np

from vf import gen
from vf.common import close, isnan, rng_for
from vf.refs import rates as R

ID = "C03"
DECIDING = ["named_values_compared", "generated_values_compared", "derived_values_compared"]
BUDGET = {"quick": 150, "thorough": 1500}
ANCHORED = ["demographic_parity_difference", "equalized_odds_ratio", "_DerivedMetric.__call__", "_get_eo_frame"]
RULE = ("exh_named/exh_genrate: every (y, y_pred) in {0,1}^n x {0,1}^n crossed with every set partition of the n rows "
        "into groups (restricted-growth strings), n<=3 fully + n=4 sampled (quick) / n<=4 fully + n=5 sampled "
        "(thorough), unweighted, all 6 named functions x method x agg resp. the 10 generated rate functions x method; "
        "rand_*: n<=30, 1..4 groups (skewed sizes so single-member and single-class groups are frequent; 30% with two sensitive "
        "columns given as DataFrame / dict / 2-D array, groups = value tuples), positive "
        "int/real weights in 70% of cases; generated sklearn metrics evaluated by calling sklearn on each group's "
        "rows; derived: make_derived_metric on a custom weighted metric with a bound parameter vs row-level reference "
        "and vs the equivalent MetricFrame call. distinct = distinct (class, n, group sizes, per-group confusion "
        "counts, weighted?); non-trivial = at least 2 groups.")
ASSUMPTIONS = ["labels/predictions in {0,1} (named functions use pos_label=1)", "weights strictly positive",
               "where the stated formula is 0/0 the oracle accepts NaN or the value with that term skipped",
               "roc_auc/log_loss only on groups containing both classes"]
EXHAUSTIVE = {"quick": ["exh_named: all datasets with n<=3 rows (y, y_pred, partition)"],
              "thorough": ["exh_named: all datasets with n<=4 rows (y, y_pred, partition)"]}
METHODS = ["between_groups", "to_overall"]


def partitions(n):
    """All restricted growth strings of length n (set partitions up to relabelling)."""
    out = []

    def rec(prefix, mx):
        if len(prefix) == n:
            out.append(list(prefix))
            return
        for v in range(mx + 2):
            rec(prefix + [v], max(mx, v))

    rec([0], 0)
    return out


_PART = {n: partitions(n) for n in range(1, 6)}


def cases(tier, seed):
    out = []
    full = 3 if tier == "quick" else 4
    for n in range(1, full + 1):
        for code in range(4 ** n):
            for pi in range(len(_PART[n])):
                out.append(("exh_named", [n, code, pi]))
    ns, nsamp = (4, 260) if tier == "quick" else (5, 12000)
    rng = rng_for(seed, ID, "plan", 0)
    for i in range(nsamp):
        out.append(("exh_named", [ns, int(rng.integers(0, 4 ** ns)), int(rng.integers(0, len(_PART[ns])))]))
    for i in range(260 if tier == "quick" else 12000):
        n = int(rng.integers(1, ns + 1))
        out.append(("exh_genrate", [n, int(rng.integers(0, 4 ** n)), int(rng.integers(0, len(_PART[n])))]))
    k = 260 if tier == "quick" else 12000
    out += [("rand_named", i) for i in range(k)]
    out += [("rand_generated", i) for i in range(k)]
    out += [("derived", i) for i in range(k // 2)]
    return out


def _decode(n, code):
    y, p = [], []
    for _ in range(n):
        d = code % 4
        code //= 4
        y.append(d // 2)
        p.append(d % 2)
    return y, p


def _accept(got, cands, tol=1e-12):
    return any(close(got, c, tol, 1e-15) for c in cands)


def _transform(vals, overall, transform, method):
    """Returns list of acceptable values (NaN policy: 0/0 may be NaN or skipped)."""
    if transform == "group_min":
        return [min(vals)]
    if transform == "group_max":
        return [max(vals)]
    if transform == "difference":
        return [R.agg_difference(vals, overall, method)]
    v = R.agg_ratio(vals, overall, method)
    return [v]


def _group_metric(fn, y, p, g, w):
    """fn(rows)->value per group + overall."""
    rows = R.group_rows(g)
    vals = [fn(r) for r in rows.values()]
    return vals, fn(list(range(len(y))))


def _sub(seq, rows):
    return None if seq is None else [seq[i] for i in rows]


def _rate_fn(kind, y, p, w, pos=1):
    if kind == "selection_rate":
        return lambda rows: R.selection_rate(_sub(p, rows), pos, _sub(w, rows))
    short = {"true_positive_rate": "tpr", "false_positive_rate": "fpr", "true_negative_rate": "tnr",
             "false_negative_rate": "fnr"}[kind]
    return lambda rows: R.rates(_sub(y, rows), _sub(p, rows), pos, _sub(w, rows))[short]


def _sig(cls, y, p, g, w):
    rows = R.group_rows(g)
    per = sorted(tuple(int(x) for x in R.confusion(_sub(y, r), _sub(p, r), 1)) for r in rows.values())
    return [cls, len(y), per, w is not None]


def _wrap(rng, y, p, g, w):
    ck = gen.pick(rng, ["list", "ndarray", "series"])
    return (gen.as_vec(y, ck, rng), gen.as_vec(p, gen.pick(rng, ["list", "ndarray", "series"]), rng),
            gen.as_vec(g, gen.pick(rng, ["list", "ndarray", "series"]), rng),
            None if w is None else gen.as_vec(w, gen.pick(rng, ["list", "ndarray", "series"]), rng))


def check_named(ctx, M, y, p, g, w, cy, cp, cg, cw, only=None, sfx=""):
    kw = {} if cw is None else {"sample_weight": cw}
    srv, sro = _group_metric(_rate_fn("selection_rate", y, p, w), y, p, g, w)
    tpv, tpo = _group_metric(_rate_fn("true_positive_rate", y, p, w), y, p, g, w)
    fpv, fpo = _group_metric(_rate_fn("false_positive_rate", y, p, w), y, p, g, w)
    for method in METHODS:
        table = [
            ("demographic_parity_difference", {}, [R.agg_difference(srv, sro, method)]),
            ("demographic_parity_ratio", {}, [R.agg_ratio(srv, sro, method)]),
            ("equal_opportunity_difference", {}, [R.agg_difference(tpv, tpo, method)]),
            ("equal_opportunity_ratio", {}, [R.agg_ratio(tpv, tpo, method)]),
        ]
        dt, df = R.agg_difference(tpv, tpo, method), R.agg_difference(fpv, fpo, method)
        rt, rf = R.agg_ratio(tpv, tpo, method), R.agg_ratio(fpv, fpo, method)
        table.append(("equalized_odds_difference", {"agg": "worst_case"}, [max(dt, df)]))
        table.append(("equalized_odds_difference", {"agg": "mean"}, [(dt + df) / 2]))
        defined = [r for r in (rt, rf) if not isnan(r)]
        if len(defined) == 2:
            table.append(("equalized_odds_ratio", {"agg": "worst_case"}, [min(rt, rf)]))
            table.append(("equalized_odds_ratio", {"agg": "mean"}, [(rt + rf) / 2]))
        else:  # a 0/0 ratio: NaN or skipped
            cands = [math.nan] + ([defined[0]] if defined else [])
            table.append(("equalized_odds_ratio", {"agg": "worst_case"}, cands))
            table.append(("equalized_odds_ratio", {"agg": "mean"}, cands))
        for name, extra, cands in table:
            if only is not None and name not in only:
                continue
            got = getattr(M, name)(cy, cp, sensitive_features=cg, method=method, **extra, **kw)
            ctx.ev("named_values_compared")
            ctx.check(np.ndim(got) == 0 and _accept(got, cands), "named_metric_mismatch:%s%s" % (name, sfx), method=method, **extra,
                      y_true=y, y_pred=p, groups=g, weights=w, got=repr(got), expected=cands)


def check_default_method(ctx, M, y, p, g, w, cy, cp, cg, cw):
    """The functions are long-lived objects: a call relying on the default method, made right after a call with
    method='to_overall', must still return the between_groups value."""
    kw = {} if cw is None else {"sample_weight": cw}
    srv, sro = _group_metric(_rate_fn("selection_rate", y, p, w), y, p, g, w)
    tpv, tpo = _group_metric(_rate_fn("true_positive_rate", y, p, w), y, p, g, w)
    for name, vals, overall, tr in (("demographic_parity_difference", srv, sro, "difference"), ("selection_rate_difference", srv, sro, "difference"),
                                    ("selection_rate_ratio", srv, sro, "ratio"), ("true_positive_rate_difference", tpv, tpo, "difference"),
                                    ("equal_opportunity_ratio", tpv, tpo, "ratio")):
        f = getattr(M, name)
        f(cy, cp, sensitive_features=cg, method="to_overall", **kw)
        got = f(cy, cp, sensitive_features=cg, **kw)
        cands = _transform(vals, overall, tr, "between_groups")
        ctx.ev("named_values_compared")
        ctx.check(np.ndim(got) == 0 and _accept(got, cands), "default_method_is_not_between_groups_after_a_to_overall_call:%s" % name,
                  y_true=y, y_pred=p, groups=g, weights=w, got=repr(got), expected=cands)


GEN_RATES = ["true_positive_rate", "true_negative_rate", "false_positive_rate", "false_negative_rate", "selection_rate"]


def check_genrates(ctx, M, y, p, g, w, cy, cp, cg, cw, forwarded=(None,), enc_label=None):
    """forwarded: values of the base metric's own `pos_label` argument passed through the generated function (None = not passed)."""
    kw = {} if cw is None else {"sample_weight": cw}
    for base in GEN_RATES:
        for pl in forwarded:
            vals, overall = _group_metric(_rate_fn(base, y, p, w, 1 if pl is None else pl), y, p, g, w)
            fkw = {} if pl is None else {"pos_label": pl if enc_label is None else enc_label(pl)}  # label as encoded in the call's data
            for tr in ("difference", "ratio"):
                for method in METHODS:
                    got = getattr(M, "%s_%s" % (base, tr))(cy, cp, sensitive_features=cg, method=method, **kw, **fkw)
                    cands = _transform(vals, overall, tr, method)
                    ctx.ev("generated_values_compared")
                    ctx.check(np.ndim(got) == 0 and _accept(got, cands), "generated_rate_metric_mismatch:%s_%s" % (base, tr),
                              method=method, forwarded=fkw, y_true=y, y_pred=p, groups=g, weights=w, got=repr(got), expected=cands)


def _rand_dataset(rng, both_classes=False):
    n = int(rng.integers(1, 31))
    k = int(rng.integers(1, 5))
    g = gen.skewed_labels(rng, n, k)
    style = gen.pick(rng, ["iid", "sparse_pos", "all_same_pred", "iid"])
    y = rng.integers(0, 2, size=n)
    p = rng.integers(0, 2, size=n)
    if style == "sparse_pos":
        y = (rng.random(n) < 0.15).astype(int)
    elif style == "all_same_pred":
        p = np.full(n, int(rng.integers(0, 2)))
    names = gen.pick(rng, [["a", "b", "c", "d"], [0, 1, 2, 3], ["x y", "x", "", "y"], [2.5, -1.0, 0.0, 7.0]])
    g = [names[i] for i in g]
    y, p = y.tolist(), p.tolist()
    if both_classes:
        # append one row of each class per group so that every group has both classes
        for gv in list(dict.fromkeys(g)):
            for c in (0, 1):
                y.append(c)
                p.append(int(rng.integers(0, 2)))
                g.append(gv)
    n = len(y)
    w = None if rng.random() < 0.3 else gen.positive_weights(rng, n, gen.pick(rng, ["int", "real", "mixed"])).tolist()
    return y, p, g, w


def run_case(cls, key, seed, ctx):
    import fairlearn.metrics as M

    rng = rng_for(seed, ID, cls, key)
    if cls in ("exh_named", "exh_genrate"):
        n, code, pi = key
        y, p = _decode(n, code)
        g = ["g%d" % v for v in _PART[n][pi]]
        w = None
        cy, cp, cg, cw = y, p, g, None
        ctx.mark(_sig(cls, y, p, g, w), len(set(g)) >= 2, sample={"y_true": y, "y_pred": p, "groups": g})
        if cls == "exh_named":
            check_named(ctx, M, y, p, g, w, cy, cp, cg, cw)
        else:
            check_genrates(ctx, M, y, p, g, w, cy, cp, cg, cw)
        return
    if cls == "rand_named":
        y, p, g, w = _rand_dataset(rng)
        cy, cp, cg, cw = _wrap(rng, y, p, g, w)
        enc_label = None
        if rng.random() < 0.25:
            # the documented {-1, 1} encoding: 1 is still the positive / selected class, so every reference value is unchanged
            enc = lambda v: ([2 * int(x) - 1 for x in v] if isinstance(v, list) else 2 * v - 1)  # noqa: E731
            cy, cp = enc(cy), enc(cp)
            enc_label = lambda lab: 2 * lab - 1  # noqa: E731
            ctx.ev("minus_one_plus_one_encoded_cases")
        if rng.random() < 0.3:
            # two sensitive columns: the groups are the observed value tuples (intersections)
            import pandas as pd

            g2 = [["u", "v", "w"][i] for i in gen.skewed_labels(rng, len(y), int(rng.integers(1, 4)))]
            cols = {"sa": list(g), "sb": g2}
            cg = gen.pick(rng, [pd.DataFrame(cols), cols, np.column_stack([np.asarray(g, dtype=object), np.asarray(g2, dtype=object)])])
            g = [(repr(a), b) for a, b in zip(g, g2)]
        ctx.mark(_sig(cls, y, p, g, w), len(set(g)) >= 2, sample={"y_true": y, "y_pred": p, "groups": g, "weights": w})
        check_named(ctx, M, y, p, g, w, cy, cp, cg, cw)
        if rng.random() < 0.4:
            check_genrates(ctx, M, y, p, g, w, cy, cp, cg, cw, forwarded=(None, int(rng.integers(0, 2))), enc_label=enc_label)
        check_default_method(ctx, M, y, p, g, w, cy, cp, cg, cw)
        if rng.random() < 0.4:
            # evaluation loops refill the same buffers: the SAME array objects, new contents, must give the new data's values
            ay, ap = np.array(y), np.array(p)
            aw = None if w is None else np.array(w, dtype=float)
            check_named(ctx, M, y, p, g, w, ay, ap, cg, aw, sfx=":first_call_on_reused_buffers")
            p2 = rng.integers(0, 2, size=len(p))
            ap[:] = p2
            y2 = list(y)
            if rng.random() < 0.5:
                ay[:] = rng.integers(0, 2, size=len(y))
                y2 = ay.tolist()
            w2 = w
            if aw is not None and rng.random() < 0.5:
                aw[:] = gen.positive_weights(rng, len(y), "real")
                w2 = aw.tolist()
            ctx.ev("refilled_buffer_rounds")
            check_named(ctx, M, y2, p2.tolist(), g, w2, ay, ap, cg, aw, sfx=":same_array_objects_refilled_in_place")
        return
    if cls == "rand_generated":
        return _run_generated(ctx, M, rng)
    if cls == "derived":
        return _run_derived(ctx, M, rng)
    raise ValueError(cls)


def _run_generated(ctx, M, rng):
    import sklearn.metrics as skm

    fam = gen.pick(rng, ["class", "class", "score", "regr"])
    y, p, g, w = _rand_dataset(rng, both_classes=(fam == "score"))
    n = len(y)
    kw = {} if w is None else {"sample_weight": gen.as_vec(w, gen.pick(rng, ["list", "ndarray", "series"]), rng)}
    if fam == "class":
        specs = [("accuracy_score", ["difference", "ratio", "group_min"]), ("zero_one_loss", ["difference", "ratio", "group_max"]),
                 ("balanced_accuracy_score", ["group_min"]), ("precision_score", ["group_min"]),
                 ("recall_score", ["group_min"]), ("f1_score", ["group_min"])]
        yy, pp = y, p
    elif fam == "score":
        specs = [("roc_auc_score", ["group_min"]), ("log_loss", ["group_max"])]
        yy, pp = y, np.round(rng.uniform(0.02, 0.98, size=n), 3).tolist()
    else:
        specs = [("mean_absolute_error", ["group_max"]), ("mean_squared_error", ["group_max"]), ("r2_score", ["group_min"])]
        yy = np.round(rng.normal(size=n), 3).tolist()
        pp = np.round(rng.normal(size=n), 3).tolist()
        if rng.random() < 0.3:
            # r2 on single-row groups is undefined (nan + warning) in sklearn itself; same function on both sides
            pass
    ctx.mark(["generated", fam] + _sig("g", y, p, g, w), len(set(g)) >= 2,
             sample={"family": fam, "y_true": yy, "y_pred": pp, "groups": g, "weights": w})
    rows = R.group_rows(g)
    for base, transforms in specs:
        f = getattr(skm, base)
        # arguments of the base metric itself forwarded through the generated function, falsy values included
        extra = gen.pick(rng, _FORWARDED.get(base, [{}]))

        def on(rws, f=f, extra=extra):
            a = np.asarray(_sub(yy, rws))
            b = np.asarray(_sub(pp, rws))
            if w is None:
                return f(a, b, **extra)
            return f(a, b, sample_weight=np.asarray(_sub(w, rws)), **extra)
        try:
            vals = [float(on(r)) for r in rows.values()]
            overall = float(on(list(range(n))))
        except ValueError:
            ctx.ev("sklearn_reference_undefined")
            continue
        for tr in transforms:
            methods = METHODS if tr in ("difference", "ratio") else [None]
            for method in methods:
                mk = {} if method is None else {"method": method}
                got = getattr(M, "%s_%s" % (base, tr))(gen.as_vec(yy, gen.pick(rng, ["list", "ndarray"]), rng), np.asarray(pp),
                                                       sensitive_features=g, **mk, **kw, **extra)
                if any(isnan(v) for v in vals):
                    ctx.ev("generated_skipped_nan_cell")
                    continue
                cands = _transform(vals, overall, tr, method)
                ctx.ev("generated_values_compared")
                ctx.check(np.ndim(got) == 0 and _accept(got, cands, 1e-10), "generated_sklearn_metric_mismatch:%s_%s" % (base, tr),
                          method=method, forwarded=extra, y_true=yy, y_pred=pp, groups=g, weights=w, got=repr(got), expected=cands)


_FORWARDED = {"accuracy_score": [{}, {"normalize": False}, {"normalize": True}], "zero_one_loss": [{}, {"normalize": False}],
              "precision_score": [{}, {"pos_label": 0}, {"zero_division": 0}], "recall_score": [{}, {"pos_label": 0}, {"zero_division": 0}],
              "f1_score": [{}, {"pos_label": 0}], "mean_squared_error": [{}], "log_loss": [{}, {"normalize": False}]}


def plain_mae(y_true, y_pred):
    return float(np.mean(np.abs(np.asarray(y_true, dtype=float) - np.asarray(y_pred, dtype=float))))


def wmae(y_true, y_pred, sample_weight=None):
    d = np.abs(np.asarray(y_true, dtype=float) - np.asarray(y_pred, dtype=float))
    return float(np.average(d, weights=None if sample_weight is None else np.asarray(sample_weight, dtype=float)))


def wpow_err(y_true, y_pred, sample_weight=None, scale=None, beta=1.0):
    """Custom metric: weighted mean of |y-p|^beta, each row additionally scaled by a second sample parameter."""
    d = np.abs(np.asarray(y_true, dtype=float) - np.asarray(y_pred, dtype=float)) ** beta
    if scale is not None:
        d = d * np.asarray(scale, dtype=float)
    sw = np.ones(len(d)) if sample_weight is None else np.asarray(sample_weight, dtype=float)
    return float(np.dot(d, sw) / sw.sum())


def _run_derived(ctx, M, rng):
    y, p, g, w = _rand_dataset(rng)
    n = len(y)
    yy = np.round(rng.normal(size=n), 2).tolist()
    pp = np.round(rng.normal(size=n), 2).tolist()
    sc = np.round(rng.uniform(0.5, 2.0, size=n), 2).tolist() if rng.random() < 0.6 else None
    beta = float(gen.pick(rng, [1.0, 2.0, 0.5]))
    tr = gen.pick(rng, ["difference", "ratio", "group_min", "group_max"])
    method = gen.pick(rng, METHODS)
    ctx.mark(["derived", tr, method, beta, sc is not None] + _sig("d", y, p, g, w), len(set(g)) >= 2,
             sample={"transform": tr, "method": method, "beta": beta, "y_true": yy, "y_pred": pp, "groups": g,
                     "sample_weight": w, "scale": sc})
    dm = M.make_derived_metric(metric=wpow_err, transform=tr, sample_param_names=["sample_weight", "scale"])
    call_kw = {"beta": beta}
    sp = {}
    if w is not None:
        call_kw["sample_weight"] = w
        sp["sample_weight"] = w
    if sc is not None:
        call_kw["scale"] = sc
        sp["scale"] = sc
    if tr in ("difference", "ratio"):
        call_kw["method"] = method
    got = dm(yy, pp, sensitive_features=g, **call_kw)

    def on(rws):
        return wpow_err(_sub(yy, rws), _sub(pp, rws), _sub(w, rws), _sub(sc, rws), beta)
    rows = R.group_rows(g)
    vals = [on(r) for r in rows.values()]
    cands = _transform(vals, on(list(range(n))), tr, method)
    ctx.ev("derived_values_compared")
    ctx.check(np.ndim(got) == 0 and _accept(got, cands, 1e-10), "derived_metric_vs_rows_mismatch:%s" % tr, method=method, beta=beta,
              y_true=yy, y_pred=pp, groups=g, sample_weight=w, scale=sc, got=repr(got), expected=cands)
    mf = M.MetricFrame(metrics=functools.partial(wpow_err, beta=beta), y_true=yy, y_pred=pp, sensitive_features=g,
                       sample_params=sp)
    if tr == "difference":
        eq = mf.difference(method=method)
    elif tr == "ratio":
        eq = mf.ratio(method=method)
    elif tr == "group_min":
        eq = mf.group_min()
    else:
        eq = mf.group_max()
    ctx.ev("derived_values_compared")
    ctx.check(close(got, eq, 1e-12, 1e-15), "derived_metric_vs_metricframe_mismatch:%s" % tr, got=repr(got), metricframe=repr(eq),
              method=method, groups=g)
    # derived metrics made with the DEFAULT sample_param_names, one of them from a metric that takes no sample_weight at all,
    # created one after the other in the same process: each must still slice the weights per group
    if w is not None:
        M.make_derived_metric(metric=plain_mae, transform="group_max")(yy, pp, sensitive_features=g)
        dm2 = M.make_derived_metric(metric=wmae, transform=tr)
        kw2 = {"method": method} if tr in ("difference", "ratio") else {}
        got2 = dm2(yy, pp, sensitive_features=g, sample_weight=w, **kw2)
        vals2 = [wmae(_sub(yy, r), _sub(pp, r), _sub(w, r)) for r in rows.values()]
        cands2 = _transform(vals2, wmae(yy, pp, w), tr, method)
        ctx.ev("derived_values_compared")
        ctx.check(np.ndim(got2) == 0 and _accept(got2, cands2, 1e-10), "derived_metric_with_default_sample_param_names_vs_rows_mismatch:%s" % tr,
                  method=method, y_true=yy, y_pred=pp, groups=g, sample_weight=w, got=repr(got2), expected=cands2)
