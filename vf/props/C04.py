"""C04 ThresholdOptimizer equalises the constrained metric exactly on the training data."""
from __future__ import annotations

import numpy as np

from vf import gen
from vf.common import rng_for
from vf.props import _tolib as TL
from vf.refs import threshold_opt as RT

ID = "C04"
DECIDING = ["fits_checked", "group_metric_comparisons"]
BUDGET = {"quick": 150, "thorough": 1500}
ANCHORED = ["_calculate_tradeoff_points", "_filter_points_to_get_convex_hull", "_interpolate_curve", "_get_interpolation_indices",
            "ThresholdOptimizer._threshold_optimization_for_simple_constraints", "ThresholdOptimizer._threshold_optimization_for_equalized_odds"]
RULE = ("exh: every multiset of (group in 2, label, score level in 3) rows with both labels in both groups, sizes 4..5 (quick) / "
        "4..6 (thorough), each crossed with a rotating schedule over 7 constraints x admissible objectives x flip x grid_size in "
        "{1,2,3,5,7,10,100,1000}; rand: 2..5 groups, n<=40, score families {few integer levels (ties), k/L rationals on grid points, "
        "gaussians, huge magnitudes, gaps of 1e-9, probabilities, constant score inside one group, multi-scale near-tie ladders}, inputs in hostile containers; "
        "adjacent (thorough): scores that are adjacent floats. Oracle: expected SR/TPR/FPR/FNR/TNR per group recomputed from "
        "_pmf_predict on the training rows must coincide across groups (both FPR and TPR for equalized odds) within 1e-9; "
        "probabilities in [0,1]. distinct = distinct (constraint, objective, flip, grid, n, per-group (size, #score levels)); "
        "non-trivial = the groups do not all share one score distribution.")
ASSUMPTIONS = ["every group contains both labels", "finite scores", "tolerance 1e-9 absolute on rates"]
EXHAUSTIVE = {"quick": ["exh: all multisets of sizes 4..5 (one configuration per multiset from the rotating schedule)"],
              "thorough": ["exh: all multisets of sizes 4..6"]}

_MS = {}


def _ms(tier):
    if tier not in _MS:
        _MS[tier] = TL.exhaustive_multisets(5 if tier == "quick" else 6)
    return _MS[tier]


def cases(tier, seed):
    ms = _ms(tier)
    out = [("exh", i) for i in range(len(ms))]
    k = 1500 if tier == "quick" else 60000
    out += [("rand", i) for i in range(k)]
    if tier == "thorough":
        out += [("adjacent", i) for i in range(5000)]
    return out


def check_equalised(ctx, to, X, sf, g, y, s, constraint, wit):
    p = np.asarray(to._pmf_predict(X, sensitive_features=sf))
    ctx.ev("fits_checked")
    if not ctx.check(p.shape == (len(y), 2), "pmf_shape_wrong", got=list(p.shape), wit=wit):
        return None
    p1 = p[:, 1]
    ctx.check(bool(((p1 >= -1e-12) & (p1 <= 1 + 1e-12)).all()), "pmf_outside_unit_interval", min=float(p1.min()), max=float(p1.max()), wit=wit)
    metrics = ["false_positive_rate", "true_positive_rate"] if constraint == "equalized_odds" else [RT.SIMPLE[constraint]]
    ya = np.asarray(y)
    for m in metrics:
        vals = {}
        for gv in dict.fromkeys(g):
            rows = np.array([i for i in range(len(g)) if g[i] == gv])
            vals[repr(gv)] = RT.expected_metric(m, p1[rows], ya[rows])
        ctx.ev("group_metric_comparisons")
        spread = max(vals.values()) - min(vals.values())
        ctx.check(spread <= 1e-9, "constrained_metric_not_equal_across_groups:" + m, per_group=vals, spread=spread,
                  interpolation={repr(k): {kk: repr(vv) for kk, vv in v.items()} for k, v in to.interpolated_thresholder_.interpolation_dict.items()}, wit=wit)
    return p1


def run_case(cls, key, seed, ctx):
    rng = rng_for(seed, ID, cls, key)
    if cls == "exh":
        combo = _ms(ctx.tier)[key]
        g, y, s = TL.rows_of_multiset(combo, levels=gen.pick(rng, [(0.0, 1.0, 2.0), (0.0, 0.5, 1.0), (-1.0, 0.0, 3.0)]))
        constraint, objective, flip, gs = TL.config_schedule(key + seed)
        hostile = False
        fam = "levels3"
    else:
        fam = "adjacent" if cls == "adjacent" else None
        g, y, s, fam2 = TL.random_dataset(rng, family=None if fam is None else "few_levels")
        if cls == "adjacent":
            base = float(gen.pick(rng, [1.0, 0.1, 1e-300, 123456.789, -2.5]))
            lv = [base]
            for _ in range(4):
                lv.append(float(np.nextafter(lv[-1], np.inf)))
            s = [lv[int(v) % 5] for v in s]
        else:
            fam = fam2
        constraint, objective, flip, gs = TL.config_random(rng)
        hostile = True
        if cls == "rand" and rng.random() < 0.06:
            gs = int(gen.pick(rng, TL.FINE_GRID_SIZES))     # very fine grids: grid points land next to (not on) hull vertices
        elif cls == "rand" and rng.random() < 0.08:
            g, y, s, fam = TL.random_dataset(rng, kmax=3, nmax=450)  # large groups with the default-size grid
            gs = 1000
    wit = {"groups": g, "labels": y, "scores": s, "constraint": constraint, "objective": objective, "flip": flip, "grid_size": gs}
    dists = {tuple(sorted((s[i], y[i]) for i in range(len(g)) if g[i] == gv)) for gv in set(g)}
    ctx.mark(TL.signature(g, y, s, constraint, objective, flip, gs) + [fam], len(dists) >= 2, sample=wit)
    if cls == "rand" and rng.random() < 0.15 and max(abs(v) for v in s) < 1e6:
        # a real scikit-learn estimator (prefit=False) and every predict_method; the scores are whatever the fitted estimator outputs
        X = np.column_stack([np.asarray(s, float), rng.normal(size=len(y))])
        to, s2, kind_ = TL.fit_optimizer_sklearn(g, y, X, constraint, objective, flip, gs, rng)
        sf = g
        wit = dict(wit, estimator=kind_, scores=s2.tolist())
        ctx.ev("sklearn_estimator_fits")
    else:
        to, X, sf = TL.fit_optimizer(g, y, s, constraint, objective, flip, gs, rng, hostile=hostile, extra_cols=int(rng.integers(0, 2)) if hostile else 0)
    before = len(ctx.violations)
    check_equalised(ctx, to, X, sf, g, y, s, constraint, wit)
    if cls == "adjacent":
        # structural precondition of the known finding: some group holds two DISTINCT scores that are adjacent floats
        # (their midpoint is not strictly between them, so no threshold of the form (a+b)/2 separates them)
        adj = any(b == np.nextafter(a, np.inf) for gv in set(g) for a in {s[i] for i in range(len(s)) if g[i] == gv}
                  for b in {s[i] for i in range(len(s)) if g[i] == gv})
        for v in ctx.violations[before:]:
            if adj and v["mech"].startswith("constrained_metric_not_equal_across_groups"):
                v["mech"] = "parity_broken_when_a_group_has_adjacent_float_scores"
