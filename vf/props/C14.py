"""C14 Base rate metrics are weighted confusion-matrix ratios for any binary encoding."""
from __future__ import annotations

import itertools

import numpy as np

from vf import gen
from vf.common import close, is_scalar_number, rng_for
from vf.refs import rates as R

ID = "C14"
DECIDING = ["rate_values_compared", "scalar_range_checks", "pos_label_switch_checks", "aux_metric_checks"]
BUDGET = {"quick": 100, "thorough": 1200}
ANCHORED = ["_get_labels_for_confusion_matrix", "true_positive_rate", "selection_rate", "mean_prediction", "count"]
RULE = ("exhaustive: every (y_true,y_pred) in {neg,pos}^n x {neg,pos}^n for n<=N (quick N=4, thorough N=6) under "
        "each of 10 label encodings ({0,1},{-1,1},bool,float,two ints/strings with pos_label = either class, "
        "explicit pos_label 0/1), container rotating over list/ndarray/Series(hostile index)/(n,1); random: "
        "n<=30 with positive weights (int, real, tiny, huge, mixed). Oracle = row counting (refs/rates.py). "
        "icontract postconditions (scalar, range) on the seven public functions are active during the workload and while the "
        "repository's own metric tests run as extra traffic (class repo_tests). distinct = distinct (encoding, n, unweighted TP/FP/TN/FN, weighted?, container); every case is "
        "non-trivial (the property covers single-valued and length-1 vectors).")
ASSUMPTIONS = ["weights strictly positive and finite", "labels take at most the two values of the encoding",
               "mean_prediction only on numeric encodings"]
EXHAUSTIVE = {"quick": ["exh: n<=4 x 10 encodings (unweighted)"], "thorough": ["exh: n<=6 x 10 encodings (unweighted)"]}

# encoding: (neg, pos, pos_label_argument or None)
ENCODINGS = [
    ("int01", 0, 1, None),
    ("int-11", -1, 1, None),
    ("bool", False, True, None),
    ("float01", 0.0, 1.0, None),
    ("ints_pos_hi", 3, 7, 7),
    ("ints_pos_lo", 9, 4, 4),
    ("str_pos_hi", "a", "b", "b"),
    ("str_pos_lo", "zz", "yes", "yes"),
    ("int01_pos0", 1, 0, 0),
    ("int01_pos1", 0, 1, 1),
]
CONTAINERS = ["list", "ndarray", "series", "col"]


def setup(tier, seed):
    from vf.monitors import contracts

    contracts.attach()


def cases(tier, seed):
    nmax = 4 if tier == "quick" else 6
    out = []
    for e in range(len(ENCODINGS)):
        for n in range(1, nmax + 1):
            for code in range(4 ** n):
                out.append(("exh", [e, n, code]))
    nrand = 1500 if tier == "quick" else 100000
    out += [("rand_weighted", i) for i in range(nrand)]
    out += [("repo_tests", ["test/unit/metrics/test_base_metrics.py"] if tier == "quick" else ["test/unit/metrics"])]
    return out


def _decode(n, code):
    yt, yp = [], []
    for _ in range(n):
        d = code % 4
        code //= 4
        yt.append(d // 2)
        yp.append(d % 2)
    return yt, yp


def run_case(cls, key, seed, ctx):
    import fairlearn.metrics as M

    from vf.monitors import contracts

    if cls == "repo_tests":
        return contracts.repo_tests_case(ctx, "C14:", key)
    rng = rng_for(seed, ID, cls, key)
    if cls == "exh":
        e, n, code = key
        bt, bp = _decode(n, code)
        w = None
        cont = CONTAINERS[(code + n + e) % len(CONTAINERS)]
    else:
        e = int(rng.integers(0, len(ENCODINGS)))
        n = int(rng.integers(1, 31))
        style = gen.pick(rng, ["iid", "single_true", "single_pred", "rare"])
        bt = rng.integers(0, 2, size=n).tolist()
        bp = rng.integers(0, 2, size=n).tolist()
        if style == "single_true":
            bt = [int(rng.integers(0, 2))] * n
        elif style == "single_pred":
            bp = [int(rng.integers(0, 2))] * n
        elif style == "rare":
            bt = (rng.random(n) < 0.1).astype(int).tolist()
        w = None if rng.random() < 0.15 else gen.positive_weights(rng, n)
        cont = gen.pick(rng, CONTAINERS)
    name, neg, pos, pl = ENCODINGS[e]
    yt = [pos if b else neg for b in bt]
    yp = [pos if b else neg for b in bp]
    cyt = gen.as_vec(yt, cont, rng)
    cyp = gen.as_vec(yp, cont, rng)
    cw = None if w is None else gen.as_vec(w, gen.pick(rng, ["list", "ndarray", "series"]), rng)
    cw_col = None if w is None else (np.asarray(w, dtype=float).reshape(-1, 1) if rng.random() < 0.3 else cw)  # column-shaped weights
    kw = {}
    if pl is not None:
        kw["pos_label"] = pl
    if cw is not None:
        kw["sample_weight"] = cw
    ref = R.rates(yt, yp, pos, w)
    tp, fp, tn, fn = R.confusion(yt, yp, pos, None)
    ctx.mark([name, n, tp, fp, tn, fn, w is not None, cont], True,
             sample={"encoding": name, "y_true": yt, "y_pred": yp, "weights": None if w is None else list(w),
                     "container": cont, "reference": {k: ref[k] for k in ("tpr", "fnr", "fpr", "tnr")}})
    fns = {"tpr": M.true_positive_rate, "fnr": M.false_negative_rate, "fpr": M.false_positive_rate,
           "tnr": M.true_negative_rate}
    got = {}
    for k, f in fns.items():
        v = f(cyt, cyp, **kw)
        got[k] = v
        ctx.ev("rate_values_compared")
        ctx.check(close(v, ref[k], 1e-12, 1e-15), "rate_value_mismatch:" + k, enc=name, y_true=yt, y_pred=yp, w=w,
                  got=v, expected=ref[k], container=cont)
        ctx.ev("scalar_range_checks")
        if not ctx.check(is_scalar_number(v), "rate_not_scalar:" + k, enc=name, got=repr(v), type=type(v).__name__):
            continue
        ctx.check(-1e-15 <= float(v) <= 1 + 1e-15, "rate_out_of_range:" + k, got=v, y_true=yt, y_pred=yp, w=w)
    # complement identities, from the returned values themselves
    if all(is_scalar_number(v) for v in got.values()):
        s1 = float(got["tpr"]) + float(got["fnr"])
        s2 = float(got["tnr"]) + float(got["fpr"])
        ctx.ev("complement_checks", 2)
        if ref["has_pos"]:
            ctx.check(close(s1, 1.0, 1e-12), "tpr_plus_fnr_not_1", y_true=yt, y_pred=yp, w=w, got=s1)
        else:
            ctx.check(float(got["tpr"]) == 0 and float(got["fnr"]) == 0, "no_positive_rows_rates_not_0", got=jn(got))
        if ref["has_neg"]:
            ctx.check(close(s2, 1.0, 1e-12), "tnr_plus_fpr_not_1", y_true=yt, y_pred=yp, w=w, got=s2)
        else:
            ctx.check(float(got["tnr"]) == 0 and float(got["fpr"]) == 0, "no_negative_rows_rates_not_0", got=jn(got))
    # pos_label switched to the other class: roles exchange
    kw2 = dict(kw)
    kw2["pos_label"] = neg
    sw = {k: f(cyt, cyp, **kw2) for k, f in fns.items()}
    for a, b in (("tpr", "tnr"), ("tnr", "tpr"), ("fpr", "fnr"), ("fnr", "fpr")):
        ctx.ev("pos_label_switch_checks")
        ctx.check(close(sw[a], got[b], 1e-12, 1e-15), "pos_label_switch_roles_not_exchanged:%s" % a, enc=name,
                  y_true=yt, y_pred=yp, w=w, switched=sw[a], original_other=got[b])
    # selection rate / mean prediction / count
    skw = {}
    if pl is not None:
        skw["pos_label"] = pl
    if cw is not None:
        skw["sample_weight"] = cw_col
    sr = M.selection_rate(cyt, cyp, **skw)
    ctx.ev("aux_metric_checks")
    ctx.check(is_scalar_number(sr), "selection_rate_not_scalar", got=repr(sr), n=n, weighted=w is not None,
              container=cont, weight_container=type(cw).__name__)
    ctx.check(close(np.asarray(sr, dtype=float).reshape(-1)[0], R.selection_rate(yp, pos, w), 1e-12, 1e-15) and np.size(sr) == 1,
              "selection_rate_value_mismatch", y_pred=yp, w=w, got=repr(sr), expected=R.selection_rate(yp, pos, w))
    if not isinstance(pos, str):
        mkw = {} if cw is None else {"sample_weight": cw_col}
        mp = M.mean_prediction(cyt, cyp, **mkw)
        ctx.ev("aux_metric_checks")
        ctx.check(is_scalar_number(mp), "mean_prediction_not_scalar", got=repr(mp))
        ctx.check(np.size(mp) == 1 and close(np.asarray(mp, dtype=float).reshape(-1)[0], R.mean_prediction(yp, w), 1e-12, 1e-15),
                  "mean_prediction_value_mismatch", y_pred=yp, w=w, got=repr(mp), expected=R.mean_prediction(yp, w))
    if isinstance(cw_col, np.ndarray):
        ctx.check(bool(np.array_equal(np.asarray(cw_col, float).ravel(), np.asarray(w, float))), "metric_call_modifies_the_callers_weight_array",
                  before=list(w)[:6], after=np.asarray(cw_col).ravel()[:6].tolist())
    c = M.count(cyt, cyp)
    ctx.ev("aux_metric_checks")
    ctx.check(is_scalar_number(c) and int(c) == n, "count_mismatch", got=repr(c), n=n)
    contracts.flush_into(ctx, "C14:")


def jn(d):
    return {k: repr(v) for k, v in d.items()}
