"""C01 MetricFrame disaggregation is exact: each cell is the metric on that subgroup."""
from __future__ import annotations

import itertools
import math

import numpy as np
import pandas as pd

from vf import gen
from vf.common import close, isnan, rng_for
from vf.monitors.recording import RecordingMetric
from vf.refs import rates as R

ID = "C01"
DECIDING = ["cells_matched_to_invocations", "overall_matched_to_invocations", "index_sets_compared", "numeric_cells_compared"]
BUDGET = {"quick": 120, "thorough": 1500}
ANCHORED = ["DisaggregatedResult._apply_functions", "AnnotatedMetricFunction.__call__", "MetricFrame._process_features"]
RULE = ("random layouts: n in 1..40, 1..3 sensitive x 0..2 control features, 1..4 values per column with skewed "
        "frequencies (singletons and empty intersections frequent), value type per column str/int/bool/float, features "
        "given as list/1-D/2-D ndarray/Series/DataFrame/dict, metrics bare or dict of 1..3 with different/absent "
        "per-sample parameters, parameters as list/ndarray/Series with hostile index. Data are row ids "
        "(y_true=i, y_pred=i+1e6, params=i+k*1e6, in 30% of the cases offset by 2^60 so that a detour through float64 is visible, a "
        "second parameter of a metric is float-valued); the RecordingMetric returns its invocation number so each cell is "
        "traced to the rows it saw; second channel: count / weighted mean_prediction / two-parameter metric / "
        "selection_rate / sklearn accuracy vs a row-level reference. distinct = distinct (n, #sensitive, #control, "
        "sorted cell sizes, #empty cells, feature container, metric form); non-trivial = >=2 non-empty groups. "
        "adv_names: metric/parameter/feature names whose internal column names coincide (known finding F8).")
ASSUMPTIONS = ["no NaN feature values; one value type per feature column", "scalar-valued metrics",
               "rows inside a group may be handed to the metric in any order (compared as multisets)"]

TYPES = {
    "str": ["a", "b", "c", "d,e", " x", ""],
    "int": [0, 1, 2, 7, -3, 10],
    "bool": [False, True],
    "float": [0.5, 1.5, -2.0, 3.25, 1e6],
}


def cases(tier, seed):
    k = 1400 if tier == "quick" else 60000
    return [("layout", i) for i in range(k)] + [("numeric", i) for i in range(k // 3)] + [("adv_names", i) for i in range(max(40, k // 30))]


# ----------------------------------------------------------------------------------- generators

def gen_features(rng, n, ncols, base):
    """returns (columns: list of python lists, names: list[str] or None-generated, container, payload)"""
    cols, types = [], []
    for _ in range(ncols):
        t = gen.pick(rng, ["str", "str", "int", "bool", "float"])
        alphabet = list(TYPES[t])
        rng.shuffle(alphabet)
        k = int(rng.integers(1, min(4, len(alphabet)) + 1))
        idx = gen.skewed_labels(rng, n, k)
        cols.append([alphabet[i] for i in idx])
        types.append(t)
    gen_names = ["%s%d" % (base, i) for i in range(ncols)]
    user_names = ["%s_%s" % (gen.pick(rng, ["sex", "race", "age band", "grp"]), chr(97 + i)) for i in range(ncols)]
    if ncols == 1:
        kinds = ["list", "ndarray", "series", "series_named", "df", "dict", "ndarray2d"]
    else:
        kinds = ["df", "dict", "ndarray2d"]
    kind = gen.pick(rng, kinds)
    names = gen_names
    if kind == "list":
        payload = list(cols[0])
    elif kind == "ndarray":
        payload = np.asarray(cols[0])
    elif kind == "series":
        payload = pd.Series(cols[0], index=gen.hostile_index(n, gen.pick(rng, gen.INDEX_KINDS), rng))
    elif kind == "series_named":
        payload = pd.Series(cols[0], index=gen.hostile_index(n, gen.pick(rng, gen.INDEX_KINDS), rng), name=user_names[0])
        names = user_names
    elif kind == "df":
        payload = pd.DataFrame({user_names[i]: cols[i] for i in range(ncols)},
                               index=gen.hostile_index(n, gen.pick(rng, gen.INDEX_KINDS), rng))
        names = user_names
    elif kind == "dict":
        payload = {user_names[i]: (np.asarray(cols[i]) if rng.random() < 0.5 else list(cols[i])) for i in range(ncols)}
        names = user_names
    else:  # ndarray2d
        arr = np.empty((n, ncols), dtype=object)
        for j in range(ncols):
            for i in range(n):
                arr[i, j] = cols[j][i]
        if len(set(types)) == 1 and rng.random() < 0.5:
            arr = np.asarray([[cols[j][i] for j in range(ncols)] for i in range(n)])
            if arr.ndim != 2:
                arr = arr.reshape(n, ncols)
        payload = arr
    return cols, names, kind, payload


def wrap_vec(rng, vals):
    return gen.as_vec(vals, gen.pick(rng, ["list", "ndarray", "series", "col", "df"]), rng)


def wrap_param(rng, vals):
    return gen.as_vec(vals, gen.pick(rng, ["list", "ndarray", "series"]), rng)


# ----------------------------------------------------------------------------------- reference

def partition(cols):
    """tuple of feature values -> sorted row positions (pure python tuple equality)."""
    out = {}
    n = len(cols[0]) if cols else 0
    for i in range(n):
        out.setdefault(tuple(c[i] for c in cols), []).append(i)
    return out


def observed(col):
    seen = []
    for v in col:
        if not any(v == s and type(v) is type(s) for s in seen):
            seen.append(v)
    return seen


def norm_key(k, nlevels):
    if nlevels == 1 and not isinstance(k, tuple):
        k = (k,)
    return tuple(_py(v) for v in k)


def _py(v):
    if isinstance(v, np.generic):
        return v.item()
    return v


def expected_index(cols):
    if len(cols) == 1:
        return {(v,) for v in observed(cols[0])}
    return set(itertools.product(*[observed(c) for c in cols]))


def same_keyset(got, exp):
    """set equality under python == (1 == 1.0 == True are the same label for pandas too)."""
    got, exp = list(got), list(exp)
    if len(got) != len(exp):
        return False
    return all(any(g == e for e in exp) for g in got) and all(any(g == e for g in got) for e in exp)


# ----------------------------------------------------------------------------------- the check

def run_case(cls, key, seed, ctx):
    from fairlearn.metrics import MetricFrame

    rng = rng_for(seed, ID, cls, key)
    if cls == "adv_names":
        return run_adv_names(ctx, rng, MetricFrame)
    n = int(gen.pick(rng, [1, 2, 3, 4, 5, 7, 10, 16, 25, 40]))
    ns = int(rng.integers(1, 4))
    nc = int(gen.pick(rng, [0, 0, 1, 1, 2]))
    scols, snames, skind, spayload = gen_features(rng, n, ns, "sensitive_feature_")
    if nc:
        ccols, cnames, ckind, cpayload = gen_features(rng, n, nc, "control_feature_")
        cnames = [c.replace("sex", "ctl").replace("race", "region").replace("grp", "site").replace("age band", "seg") for c in cnames]
        if ckind == "series_named":
            cpayload = cpayload.rename(cnames[0])
        elif ckind == "df":
            cpayload.columns = cnames
        elif ckind == "dict":
            cpayload = {cnames[i]: v for i, v in enumerate(cpayload.values())}
    else:
        ccols, cnames, ckind, cpayload = [], [], None, None
    allcols = ccols + scols
    part = partition(allcols)
    cpart = partition(ccols) if nc else {(): list(range(n))}
    exp_idx = expected_index(allcols)
    sizes = sorted(len(v) for v in part.values())
    n_empty = len(exp_idx) - len(part)
    if cls == "layout":
        return run_layout(ctx, rng, MetricFrame, n, ns, nc, scols, snames, skind, spayload, ccols, cnames, ckind, cpayload,
                          part, cpart, exp_idx, sizes, n_empty)
    return run_numeric(ctx, rng, MetricFrame, n, ns, nc, allcols, spayload, cpayload, snames, cnames, skind, part, cpart, exp_idx,
                       sizes, n_empty)


BIG = 2 ** 60  # integers this large do not survive a detour through float64


def build_metrics(rng, n, base=0):
    """returns (metrics argument, sample_params argument, [(name, RecordingMetric, {param: values})], form)"""
    ids = np.arange(n) + base
    form = gen.pick(rng, ["bare", "bare_params", "dict1", "dict2", "dict3"])
    specs = []
    if form.startswith("bare"):
        pnames = [] if form == "bare" else gen.pick(rng, [["sample_weight"], ["w", "extra"], ["sample_weight", "z"]])
        m = RecordingMetric("recmetric", 0.0, pnames)
        params = {p: ((ids + (k + 2) * 10 ** 6).tolist() if k == 0 else (np.arange(n) + 0.5 + k).tolist()) for k, p in enumerate(pnames)}
        sp = {p: wrap_param(rng, v) for p, v in params.items()} if pnames else None
        if pnames and rng.random() < 0.2:
            sp["unused_none"] = None
        return m, sp, [("recmetric", m, params)], form
    k = int(form[-1])
    metrics, sp = {}, {}
    # the callables' own __name__ is independent of the dict key: closures from one factory / one class share it
    shared_name = gen.pick(rng, [None, "metric_fn", "<lambda>"])
    for j in range(k):
        name = ["alpha", "beta", "gamma"][j]
        pnames = gen.pick(rng, [[], ["sample_weight"], ["w", "extra"], ["sample_weight"]])
        # some metrics work in place on the arrays they receive: the other metrics of the dict must still see the real rows
        m = RecordingMetric(shared_name or name, (j + 1) * 10 ** 4, pnames, scribble=bool(rng.random() < 0.3))
        params = {p: ((ids + (3 * j + q + 2) * 10 ** 6).tolist() if q == 0 else (np.arange(n) + 0.25 + j + q).tolist()) for q, p in enumerate(pnames)}
        metrics[name] = m
        if pnames:
            sp[name] = {p: wrap_param(rng, v) for p, v in params.items()}
        elif rng.random() < 0.3:
            sp[name] = {}
        specs.append((name, m, params))
    return metrics, (sp or None), specs, form


def run_layout(ctx, rng, MetricFrame, n, ns, nc, scols, snames, skind, spayload, ccols, cnames, ckind, cpayload,
               part, cpart, exp_idx, sizes, n_empty):
    base = BIG if rng.random() < 0.3 else 0
    ids = [i + base for i in range(n)]
    y_true = ids
    y_pred = [i + 10 ** 6 for i in ids]
    metrics, sp, specs, form = build_metrics(rng, n, base)
    ctx.mark([n, ns, nc, sizes, n_empty, skind, ckind, form, base != 0], len(part) >= 2,
             sample={"n": n, "sensitive": {snames[i]: scols[i] for i in range(ns)}, "control": {cnames[i]: ccols[i] for i in range(nc)},
                     "sensitive_container": skind, "control_container": ckind, "metric_form": form,
                     "cell_sizes": sizes, "empty_cells": n_empty})
    yt_w, yp_w = wrap_vec(rng, y_true), wrap_vec(rng, y_pred)
    wit = {"n": n, "sensitive": scols, "control": ccols, "containers": [skind, ckind], "form": form}
    nlev = ns + nc
    # the same argument OBJECTS are used for a second frame (model comparison workflows reuse y_true / features / sample_params):
    # the second frame is held to the same standard against the parameters the caller built
    reuse = rng.random() < 0.5
    for sfx in (["", ":second_frame_from_the_same_argument_objects"] if reuse else [""]):
        mf = MetricFrame(metrics=metrics, y_true=yt_w, y_pred=yp_w, sensitive_features=spayload, control_features=cpayload, sample_params=sp)
        if sfx:
            ctx.ev("second_frames_checked")
        _verify_layout(ctx, mf, sfx, wit, nlev, ns, nc, snames, cnames, specs, form, base, n, part, cpart, exp_idx)


def _verify_layout(ctx, mf, sfx, wit, nlev, ns, nc, snames, cnames, specs, form, base, n, part, cpart, exp_idx):
    bg = mf.by_group
    # names
    ctx.ev("names_checked")
    ctx.check(list(mf.sensitive_levels) == snames, "sensitive_levels_names" + sfx, got=mf.sensitive_levels, expected=snames, wit=wit)
    ctx.check((mf.control_levels or []) == cnames, "control_levels_names" + sfx, got=mf.control_levels, expected=cnames, wit=wit)
    # container by form: by_group carries an index (one entry per group) even when a single group is observed
    if form.startswith("bare"):
        ok_type = ctx.check(isinstance(bg, pd.Series), "by_group_type_for_callable" + sfx, got=type(bg).__name__, wit=wit)
    else:
        ok_type = ctx.check(isinstance(bg, pd.DataFrame) and list(bg.columns) == [s[0] for s in specs], "by_group_columns_for_dict" + sfx,
                            got=type(bg).__name__, wit=wit)
    if not ok_type:
        return
    ctx.check(list(bg.index.names) == cnames + snames, "by_group_index_level_order" + sfx, got=list(bg.index.names), expected=cnames + snames, wit=wit)
    # index set
    got_keys = [norm_key(k, nlev) for k in bg.index]
    ctx.ev("index_sets_compared")
    ctx.check(same_keyset(got_keys, exp_idx) and len(set(map(repr, got_keys))) == len(got_keys), "by_group_index_set_mismatch" + sfx,
              got=[list(k) for k in got_keys], expected=[list(k) for k in exp_idx], wit=wit)
    for name, m, params in specs:
        def exp_rows(rows):
            return sorted([tuple([i + base, i + base + 10 ** 6] + [params[p][i] for p in m.param_names]) for i in rows], key=repr)
        col = bg if isinstance(bg, pd.Series) else bg[name]
        for k_raw, v in col.items():
            k = norm_key(k_raw, nlev)
            rows = _lookup(part, k)
            if rows is None:
                ctx.ev("empty_cells_checked")
                ctx.check(isnan(v), "empty_combination_not_nan" + sfx, cell=list(k), value=repr(v), metric=name, wit=wit)
                continue
            rec = m.invocation(v)
            ctx.ev("cells_matched_to_invocations")
            if not ctx.check(rec is not None, "cell_value_not_from_metric_invocation" + sfx, cell=list(k), value=repr(v), metric=name, wit=wit):
                continue
            ctx.check(m.rows_of(rec) == exp_rows(rows), "cell_computed_on_wrong_rows_or_param_slices" + sfx, cell=list(k), metric=name,
                      saw=m.rows_of(rec)[:12], expected=exp_rows(rows)[:12], wit=wit)
            ctx.check(set(rec["params"]) == set(m.param_names), "metric_received_wrong_parameter_names", metric=name,
                      got=sorted(rec["params"]), expected=list(m.param_names))
        # overall
        ov = mf.overall
        if nc == 0:
            v = ov if form.startswith("bare") else ov[name]
            rec = m.invocation(v)
            ctx.ev("overall_matched_to_invocations")
            if ctx.check(rec is not None, "overall_value_not_from_metric_invocation" + sfx, value=repr(v), metric=name, wit=wit):
                ctx.check(m.rows_of(rec) == exp_rows(range(n)), "overall_not_computed_on_all_rows" + sfx, metric=name,
                          saw=m.rows_of(rec)[:12], wit=wit)
        else:
            if not ctx.check(isinstance(ov, pd.Series if form.startswith("bare") else pd.DataFrame), "overall_with_control_features_has_no_entry_per_control_combination" + sfx,
                             got=type(ov).__name__, wit=wit):
                continue
            colo = ov if isinstance(ov, pd.Series) else ov[name]
            seen = []
            for k_raw, v in colo.items():
                k = norm_key(k_raw, nc)
                rows = _lookup(cpart, k)
                if rows is None:
                    ctx.check(isnan(v), "empty_control_combination_not_nan_in_overall" + sfx, cell=list(k), value=repr(v), wit=wit)
                    continue
                seen.append(k)
                rec = m.invocation(v)
                ctx.ev("overall_matched_to_invocations")
                if ctx.check(rec is not None, "overall_value_not_from_metric_invocation" + sfx, cell=list(k), value=repr(v), metric=name, wit=wit):
                    ctx.check(m.rows_of(rec) == exp_rows(rows), "overall_not_computed_on_control_combination_rows" + sfx, cell=list(k),
                              metric=name, saw=m.rows_of(rec)[:12], expected=exp_rows(rows)[:12], wit=wit)
            ctx.check(same_keyset(seen, list(cpart.keys())), "overall_missing_control_combination" + sfx, got=[list(s) for s in seen],
                      expected=[list(s) for s in cpart], wit=wit)


def _lookup(part, k):
    for kk, rows in part.items():
        if len(kk) == len(k) and all(a == b for a, b in zip(kk, k)):
            return rows
    return None


def two_param(y_true, y_pred, sample_weight=None, cost=None):
    yt = np.asarray(y_true, float)
    yp = np.asarray(y_pred, float)
    return float(np.sum(np.asarray(sample_weight, float) * np.asarray(cost, float) * np.abs(yt - yp)) / np.sum(sample_weight))


def run_numeric(ctx, rng, MetricFrame, n, ns, nc, allcols, spayload, cpayload, snames, cnames, skind, part, cpart, exp_idx, sizes, n_empty):
    import fairlearn.metrics as M
    from sklearn.metrics import accuracy_score

    y = rng.integers(0, 2, size=n).tolist()
    p = rng.integers(0, 2, size=n).tolist()
    w = gen.positive_weights(rng, n, gen.pick(rng, ["int", "real"])).tolist()
    c = np.round(rng.uniform(0.1, 3, size=n), 3).tolist()
    metrics = {"count": M.count, "mp": M.mean_prediction, "two": two_param, "sel": M.selection_rate, "acc": accuracy_score}
    sp = {"mp": {"sample_weight": wrap_param(rng, w)}, "two": {"sample_weight": wrap_param(rng, w), "cost": wrap_param(rng, c)},
          "sel": {"sample_weight": wrap_param(rng, w)}}
    ctx.mark(["numeric", n, ns, nc, sizes, n_empty, skind], len(part) >= 2,
             sample={"n": n, "features": allcols, "y_true": y, "y_pred": p, "weights": w, "cost": c})
    mf = MetricFrame(metrics=metrics, y_true=wrap_vec(rng, y), y_pred=wrap_vec(rng, p), sensitive_features=spayload,
                     control_features=cpayload, sample_params=sp)

    def sub(seq, rows):
        return [seq[i] for i in rows]

    def ref(name, rows):
        if name == "count":
            return len(rows)
        if name == "mp":
            return R.mean_prediction(sub(p, rows), sub(w, rows))
        if name == "two":
            return sum(w[i] * c[i] * abs(y[i] - p[i]) for i in rows) / sum(w[i] for i in rows)
        if name == "sel":
            return R.selection_rate(sub(p, rows), 1, sub(w, rows))
        return R.accuracy(sub(y, rows), sub(p, rows))
    nlev = ns + nc
    wit = {"n": n, "features": allcols, "y_true": y, "y_pred": p, "weights": w, "cost": c}
    for k_raw, row in mf.by_group.iterrows():
        k = norm_key(k_raw, nlev)
        rows = _lookup(part, k)
        for name in metrics:
            v = row[name]
            ctx.ev("numeric_cells_compared")
            if rows is None:
                ctx.check(isnan(v), "empty_combination_not_nan", cell=list(k), metric=name, value=repr(v), wit=wit)
            else:
                ctx.check(np.ndim(v) == 0 and close(v, ref(name, rows), 1e-11, 1e-13), "numeric_cell_mismatch:" + name, cell=list(k),
                          got=repr(v), expected=ref(name, rows), wit=wit)
    ov = mf.overall
    if nc == 0:
        for name in metrics:
            ctx.ev("numeric_cells_compared")
            ctx.check(close(ov[name], ref(name, list(range(n))), 1e-11, 1e-13), "numeric_overall_mismatch:" + name, got=repr(ov[name]), wit=wit)
    else:
        for k_raw, row in ov.iterrows():
            k = norm_key(k_raw, nc)
            rows = _lookup(cpart, k)
            for name in metrics:
                ctx.ev("numeric_cells_compared")
                if rows is None:
                    ctx.check(isnan(row[name]), "empty_control_combination_not_nan_in_overall", cell=list(k), wit=wit)
                else:
                    ctx.check(close(row[name], ref(name, rows), 1e-11, 1e-13), "numeric_overall_mismatch:" + name, cell=list(k),
                              got=repr(row[name]), expected=ref(name, rows), wit=wit)
    # integer-valued metrics beyond 2**53 (sums of nanosecond timestamps, hashes, ids): a cell must hold the integer the metric returned
    if n_empty == 0 and rng.random() < 0.3:
        big_ids = [2 ** 60 + 2 * i + 1 for i in range(n)]  # odd: none of them is a float64

        def max_id(y_true, y_pred):
            return int(np.max(np.asarray(y_true, dtype=np.int64)))

        def half(y_true, y_pred):
            return 0.5
        for form, mset in (("alone", {"max_id": max_id}), ("next_to_a_float_valued_metric", {"max_id": max_id, "half": half})):
            mfi = MetricFrame(metrics=mset, y_true=big_ids, y_pred=p, sensitive_features=spayload, control_features=cpayload)
            badc = []
            for k_raw, v in mfi.by_group["max_id"].items():
                rows = _lookup(part, norm_key(k_raw, nlev))
                ctx.ev("big_integer_cells_compared")
                try:
                    same = rows is not None and int(v) == max(big_ids[i] for i in rows)
                except (TypeError, ValueError, OverflowError):
                    same = False
                if not same:
                    badc.append({"cell": repr(k_raw), "got": repr(v), "expected": None if rows is None else max(big_ids[i] for i in rows)})
            ctx.check(not badc, "integer_metric_value_above_2**53_not_reported_exactly:" + form, cells=badc[:4], by_group_dtype=str(mfi.by_group["max_id"].dtype),
                      wit={"n": n, "features": allcols})


def run_adv_names(ctx, rng, MetricFrame):
    """Names chosen so that MetricFrame's internal column names coincide (design finding F8)."""
    n = int(rng.integers(4, 13))
    ids = np.arange(n)
    g = [["a", "b"][i] for i in gen.skewed_labels(rng, n, 2)]
    if len(set(g)) < 2:
        g[0] = "a"
        g[-1] = "b"
    kind = gen.pick(rng, ["metric_param_concat", "feature_named_like_data", "feature_named_like_param_column"])
    part = partition([g])
    if kind == "metric_param_concat":
        m1 = RecordingMetric("a", 10 ** 4, ["b_c"])
        m2 = RecordingMetric("a_b", 2 * 10 ** 4, ["c"])
        p1, p2 = (ids + 2 * 10 ** 6).tolist(), (ids + 3 * 10 ** 6).tolist()
        metrics = {"a": m1, "a_b": m2}
        sp = {"a": {"b_c": p1}, "a_b": {"c": p2}}
        specs = [("a", m1, {"b_c": p1}), ("a_b", m2, {"c": p2})]
        sf = pd.Series(g, name="grp")
    elif kind == "feature_named_like_data":
        m1 = RecordingMetric("m", 10 ** 4, [])
        metrics, sp, specs = {"m": m1}, None, [("m", m1, {})]
        sf = pd.Series(g, name=gen.pick(rng, ["y_pred", "y_true"]))
    else:
        m1 = RecordingMetric("m", 10 ** 4, ["w"])
        p1 = (ids + 2 * 10 ** 6).tolist()
        metrics, sp, specs = {"m": m1}, {"m": {"w": p1}}, [("m", m1, {"w": p1})]
        sf = pd.Series(g, name="m_w")
    ctx.mark(["adv_names", kind, n, sorted(len(v) for v in part.values())], True, sample={"kind": kind, "groups": g})
    mech = "internal_column_name_collision:" + kind
    try:
        mf = MetricFrame(metrics=metrics, y_true=ids.tolist(), y_pred=(ids + 10 ** 6).tolist(), sensitive_features=sf, sample_params=sp)
    except Exception as e:  # noqa: BLE001  rejecting such names would be acceptable behaviour
        ctx.ev("adv_names_rejected")
        ctx.notes["rejected"] = repr(e)[:200]
        return
    bad = None
    for name, m, params in specs:
        for k_raw, v in mf.by_group[name].items():
            rows = _lookup(part, norm_key(k_raw, 1))
            rec = m.invocation(v)
            ctx.ev("cells_matched_to_invocations")
            exp = sorted([tuple([i, i + 10 ** 6] + [params[p][i] for p in m.param_names]) for i in (rows or [])], key=repr)
            if rows is None or rec is None or m.rows_of(rec) != exp:
                bad = {"metric": name, "cell": repr(k_raw), "saw": None if rec is None else m.rows_of(rec)[:6], "expected": exp[:6]}
    if bad:
        ctx.violate(mech, kind=kind, groups=g, **bad)
