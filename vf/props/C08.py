"""C08 ExponentiatedGradient meets the saddle-point guarantees certified by best_gap_."""
from __future__ import annotations

import numpy as np
import pandas as pd

from vf import gen
from vf.common import rng_for
from vf.monitors.learners import ExactLearner
from vf.props import _momentlib as ML
from vf.refs import moments as RM
from vf.refs import saddle as RS

ID = "C08"
DECIDING = ["fits_checked", "gap_certificates_checked", "consequence_checks"]
BUDGET = {"quick": 240, "thorough": 1800}
ANCHORED = ["_Lagrangian._eval", "_Lagrangian.eval_gap", "_Lagrangian.solve_linprog", "_Lagrangian.best_h", "ExponentiatedGradient.fit"]
RULE = ("random binary datasets n in 10..40, 2..3 groups, one feature with 2..5 distinct values, optional control feature; base "
        "learner = ExactLearner (exact weighted 0/1 minimiser over all labellings of the feature cells, or over 1-D thresholds in "
        "both directions + constants; in a fifth of the cases wrapped in a scikit-learn Pipeline with sample_weight_name='clf__sample_weight') "
        "so the hypothesis class H is enumerable; 5 parity moments x 9 bound specs; eps in "
        "{0.01..0.25} (in a quarter of the cases the estimator was fitted on other data of the same size before), max_iter in {1,3,6,10,25,50}, nu in {0, 1e-12, 1e-9, 1e-6..0.05}, eta0 in {0.5,2,8}, LP step on/off; a quarter of the fits use objective=ErrorRate(costs) with costs in [0,1] incl. a zero cost. Oracle: (cost-weighted) err/gamma "
        "tables over H from refs/moments.py; Q = weights_ over predictors_[t].predict(X); true duality gap of (Q, lambda-hat) for "
        "lambda-hat in {mean of lambda_vecs_EG_[:, :best_iter_+1], lambda_vecs_LP_[best_iter_]} (minimum over the candidates) "
        "must be <= best_gap_; independent LP (HiGHS) for the constrained optimum: err(Q) <= OPT + 2g and every constraint "
        "exceeds its bound by at most (1+2g)/B; weights_ is a probability vector; early stop => best_gap_ < nu. distinct = "
        "distinct (moment, bound, n, #groups, #strata, hclass, eps, max_iter, lp, #support, active constraint?); non-trivial = "
        ">=2 predictors in the support or an active constraint.")
ASSUMPTIONS = ["base learner exact over H (the ExactLearner of the harness); H contains both constant classifiers",
               "feasibility of the constrained problem is decided by the reference LP", "tolerances 1e-6 on gaps, 1e-7 on consequences"]


def cases(tier, seed):
    return [("fit", i) for i in range(400 if tier == "quick" else 6000)]


def run_case(cls, key, seed, ctx):
    import fairlearn.reductions as red

    rng = rng_for(seed, ID, cls, key)
    kind = RM.PARITY[int(rng.integers(0, 5))]
    bound = ML.BOUNDS[int(rng.integers(0, len(ML.BOUNDS)))]
    ds = ML.make_dataset(rng, nmin=10, nmax=40, kmax=3, feature_levels=int(rng.integers(2, 6)), control=bool(rng.random() < 0.35))
    moment, ratio, cbound = ML.make_moment(kind, bound)
    hclass = gen.pick(rng, ["cells", "thresholds"])
    eps = float(gen.pick(rng, [0.01, 0.02, 0.05, 0.1, 0.25]))
    max_iter = int(gen.pick(rng, [1, 3, 6, 10, 25, 50]))
    nu = float(gen.pick(rng, [1e-6, 1e-4, 1e-3, 0.01, 0.05, 0.0, 1e-9, 1e-12]))
    eta0 = float(gen.pick(rng, [0.5, 2.0, 8.0]))
    lp = bool(rng.random() < 0.6)
    composite = bool(rng.random() < 0.2)
    # a quarter of the fits use a cost-sensitive error objective with costs in [0,1] (so the objective stays in [0,1], as the
    # (1+2g)/B bound assumes); "error" below is then that cost-weighted error.  A zero cost gives rows with exactly zero weight.
    fp, fn = (1.0, 1.0) if rng.random() < 0.75 else [(0.0, 1.0), (1.0, 0.0), (0.3, 1.0), (1.0, 0.5), (0.0, 0.7)][int(rng.integers(0, 5))]
    okw = {} if (fp, fn) == (1.0, 1.0) else {"objective": red.ErrorRate(costs={"fp": fp, "fn": fn})}
    if composite:
        from sklearn.pipeline import Pipeline
        from sklearn.preprocessing import FunctionTransformer

        eg = red.ExponentiatedGradient(Pipeline([("noop", FunctionTransformer()), ("clf", ExactLearner(hclass=hclass))]), moment, eps=eps, max_iter=max_iter,
                                       nu=nu, eta0=eta0, run_linprog_step=lp, sample_weight_name="clf__sample_weight", **okw)
    else:
        eg = red.ExponentiatedGradient(ExactLearner(hclass=hclass), moment, eps=eps, max_iter=max_iter, nu=nu, eta0=eta0, run_linprog_step=lp, **okw)
    X, y, g, c = ML.wrap_inputs(rng, ds)
    kw = {"sensitive_features": g}
    if c is not None:
        kw["control_features"] = c
    refit = bool(rng.random() < 0.25)
    if refit:
        # the estimator (and its constraints object) was fitted on other data of the same size before: the guarantees
        # are about the LAST fit
        ds0 = ML.make_dataset(rng, nmin=ds.n, nmax=ds.n, kmax=3, feature_levels=int(ds.X[:, 0].max()) + 1, control=ds.c is not None)
        kw0 = {"sensitive_features": ds0.g}
        if ds0.c is not None:
            kw0["control_features"] = ds0.c
        eg.fit(ds0.X, ds0.y, **kw0)
    eg.fit(X, y, **kw)
    B = 1.0 / eps
    wit = {"moment": kind, "bound": list(bound), "y": ds.y, "groups": ds.g, "control": ds.c, "x": ds.X[:, 0].tolist(), "hclass": hclass,
           "eps": eps, "max_iter": max_iter, "nu": nu, "eta0": eta0, "lp": lp, "pipeline_estimator": composite, "fitted_on_other_data_before": refit, "objective_costs": {"fp": fp, "fn": fn}, "best_gap_": float(eg.best_gap_), "best_iter_": int(eg.best_iter_),
           "last_iter_": int(eg.last_iter_)}
    ctx.ev("fits_checked")
    mom = eg.constraints
    mapping, problems = ML.align_index(mom, kind, ds, ratio, rng)
    if problems:
        ctx.violate("index_does_not_match_definition:" + problems[0][0], detail=problems[0][1], wit=wit)
        return
    tab = RS.Table(kind, ds, ratio, cbound, ExactLearner.hypotheses(ds.X[:, 0], hclass), fp, fn)
    w = eg.weights_
    wv = np.asarray(w, float)
    ctx.check(bool((wv >= -1e-12).all()) and abs(float(wv.sum()) - 1.0) <= 1e-9, "weights_not_a_probability_vector", weights=wv.tolist(), wit=wit)
    errQ, gQ = 0.0, np.zeros(len(tab.keys))
    support = 0
    for t in w.index:
        if w[t] == 0:
            continue
        support += 1
        e_t, g_t = tab.of(np.asarray(eg.predictors_[t].predict(ds.X), float))
        errQ += float(w[t]) * e_t
        gQ += float(w[t]) * g_t
    active = bool((gQ - cbound).max() > -1e-9)
    ctx.mark([kind, list(bound), ds.n, len(set(ds.g)), None if ds.c is None else len(set(ds.c)), hclass, eps, max_iter, lp, support, active],
             support >= 2 or active, sample={k: wit[k] for k in ("moment", "bound", "y", "groups", "control", "x", "hclass", "eps", "max_iter", "lp")})
    # candidate multiplier vectors recorded for the returned iteration
    bi = int(eg.best_iter_)
    cands = {}
    egl = eg.lambda_vecs_EG_
    if bi in egl.columns:
        lam_eg = egl[[c_ for c_ in egl.columns if c_ <= bi]].mean(axis=1)
        cands["EG_average"] = {mapping[e]: float(lam_eg[e]) for e in mom.index}
    lpl = eg.lambda_vecs_LP_
    if lp and bi in lpl.columns:
        cands["LP_dual"] = {mapping[e]: float(lpl[bi][e]) for e in mom.index}
    gaps = {}
    for nm, lam in cands.items():
        lv = RS.project(tab.keys, tab.lam_vec(lam), ratio)
        tg, L, Lhigh = tab.true_gap(errQ, gQ, lv, B)
        gaps[nm] = {"true_gap": tg, "L": L, "L_high": Lhigh, "min_h_L": tab.min_lagrangian(lv)}
    ctx.ev("gap_certificates_checked")
    if ctx.check(len(gaps) > 0, "no_multiplier_vector_recorded_for_the_returned_iteration", columns_EG=list(map(int, egl.columns)), wit=wit):
        best_true = min(v["true_gap"] for v in gaps.values())
        ctx.check(best_true <= float(eg.best_gap_) + 1e-6, "best_gap_below_true_duality_gap", true_gaps=gaps, err_Q=errQ,
                  max_violation=float((gQ - cbound).max()), wit=wit)
    ctx.check(float(eg.best_gap_) >= -1e-9, "best_gap_negative", wit=wit)
    opt = tab.constrained_optimum()
    if opt is None:
        ctx.ev("reference_lp_infeasible")
    else:
        gq = float(eg.best_gap_)
        ctx.ev("consequence_checks", 2)
        ctx.check(errQ <= opt + 2 * gq + 1e-7, "error_exceeds_constrained_optimum_plus_2g", err_Q=errQ, optimum=opt, wit=wit)
        ctx.check(float((gQ - cbound).max()) <= (1 + 2 * gq) / B + 1e-7, "constraint_violation_exceeds_1_plus_2g_over_B",
                  max_violation=float((gQ - cbound).max()), allowed=(1 + 2 * gq) / B, wit=wit)
    if int(eg.last_iter_) < max_iter - 1:
        ctx.ev("early_stops_seen")
        ctx.check(float(eg.best_gap_) < nu, "stopped_early_with_gap_not_below_nu", wit=wit)
    ctx.check(int(eg.last_iter_) <= max_iter - 1 and 0 <= bi <= int(eg.last_iter_), "iteration_counters_inconsistent", wit=wit)
