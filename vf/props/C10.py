"""C10 Randomised predictors sample from the probability mass function they report."""
from __future__ import annotations

import math

import numpy as np
import pandas as pd

from vf import gen
from vf.common import rng_for
from vf.monitors.learners import ExactLearner, ExactRegressor
from vf.props import _momentlib as ML
from vf.props import _tolib as TL
from vf.refs import moments as RM

ID = "C10"
DECIDING = ["pmf_rows_validated", "mixture_rows_compared", "thresholder_consistency_checks", "frequency_tests", "reproducibility_checks",
            "extreme_draw_checks"]
BUDGET = {"quick": 200, "thorough": 1800}
ANCHORED = ["ExponentiatedGradient._pmf_predict", "ExponentiatedGradient.predict", "InterpolatedThresholder._pmf_predict",
            "InterpolatedThresholder.predict", "ThresholdOperation.__call__"]
RULE = ("models: ThresholdOptimizer fits from the C04 generators (all constraints, flip on/off), ExponentiatedGradient classification "
        "fits with an exact learner (with and without the LP step) and regression fits with BoundedGroupLoss without the LP step "
        "(so that the support of weights_ is not in iteration order). Monitors: _pmf_predict validity; EG mixture recomputed from "
        "predictors_/weights_ by predictor id; thresholder pmf equal for equal (score, group) on permuted/duplicated/unseen query "
        "rows and non-decreasing in the score without flip; predict in {0,1} (regression: a value of a positive-weight predictor); "
        "frequencies over S seeds (300 quick / 2000 thorough) against the pmf with Hoeffding bounds sized for a total false-alarm "
        "probability <= 1e-9 per run; exact reproducibility for a repeated seed; RNG fault injection: a RandomState whose uniform "
        "draws are the extremes 0.0 and 1-2^-53 (an icontract postcondition on the three _pmf_predict methods re-checks pmf validity on "
        "every call, also while the repository's post-processing tests run as extra traffic) - rows with p=1 must give 1 and rows with p=0 must give 0. distinct = distinct "
        "(model kind, constraint/moment, n, #groups, #support, flags); non-trivial = some row has 0<p<1.")
ASSUMPTIONS = ["no assumption on how many random numbers are drawn or in which order", "Hoeffding bounds: two-sided, union bound over all "
               "frequency tests of the run (at most 2e6)"]
N_TESTS_BOUND = 2e6


class ExtremeRandomState(np.random.RandomState):
    """A legitimate value of the documented random_state argument whose uniform draws sit at an end of [0,1)."""

    def __init__(self, value):
        super().__init__(0)
        self._v = float(value)

    def rand(self, *shape):
        return np.full(shape, self._v) if shape else self._v

    def random_sample(self, size=None):
        return self._v if size is None else np.full(size, self._v)

    random = random_sample
    sample = random_sample

    def uniform(self, low=0.0, high=1.0, size=None):
        v = low + (high - low) * self._v
        return v if size is None else np.full(size, v)


def hoeffding_eps(S):
    delta = 1e-9 / N_TESTS_BOUND
    return math.sqrt(math.log(2.0 / delta) / (2.0 * S))


def setup(tier, seed):
    from vf.monitors import contracts

    contracts.attach()


def cases(tier, seed):
    k = 1 if tier == "quick" else 12
    return [("thresholder", i) for i in range(70 * k)] + [("eg_class", i) for i in range(48 * k)] + [("eg_regr", i) for i in range(24 * k)] + \
        [("repo_tests", ["test/unit/postprocessing/test_threshold_optimizer_multiple_sensitive_features.py"] if tier == "quick" else ["test/unit/postprocessing"])]


def n_seeds(tier):
    return 300 if tier == "quick" else 2000


def check_pmf(ctx, pmf, wit):
    pmf = np.asarray(pmf, dtype=float)
    ctx.ev("pmf_rows_validated", int(pmf.shape[0]))
    ok = pmf.ndim == 2 and pmf.shape[1] == 2
    if not ctx.check(ok, "pmf_not_two_columns", shape=list(pmf.shape), wit=wit):
        return None
    ctx.check(bool(((pmf >= -1e-12) & (pmf <= 1 + 1e-12)).all()), "pmf_entry_outside_unit_interval", min=float(pmf.min()), max=float(pmf.max()), wit=wit)
    ctx.check(bool(np.allclose(pmf.sum(axis=1), 1.0, atol=1e-12)), "pmf_row_does_not_sum_to_one", sums=pmf.sum(axis=1)[:8].tolist(), wit=wit)
    return pmf[:, 1]


def sampling_checks(ctx, predict, p, S, wit, label):
    """predict(seed_or_state) -> labels. Frequencies, reproducibility, extreme draws."""
    p = np.asarray(p, dtype=float)
    m = len(p)
    counts = np.zeros(m)
    first = None
    for sd in range(S):
        out = np.asarray(predict(sd))
        if sd == 0:
            first = out.copy()
            ctx.check(out.shape == (m,), "predict_shape_wrong:" + label, shape=list(out.shape), wit=wit)
        if not ctx.check(bool(np.isin(out, [0, 1]).all()), "predict_label_outside_0_1:" + label, values=np.unique(out).tolist()[:6], wit=wit):
            return
        counts += out
    f = counts / S
    eps = hoeffding_eps(S)
    ctx.ev("frequency_tests", m + 1)
    worst = int(np.argmax(np.abs(f - p)))
    ctx.check(abs(f[worst] - p[worst]) <= eps, "prediction_frequency_inconsistent_with_pmf:" + label, row=worst, frequency=float(f[worst]),
              probability=float(p[worst]), hoeffding_bound=eps, seeds=S, wit=wit)
    agg_eps = hoeffding_eps(S * m)
    ctx.check(abs(float(np.mean(f - p))) <= agg_eps, "mean_prediction_frequency_biased_against_pmf:" + label, mean_frequency=float(f.mean()),
              mean_probability=float(p.mean()), hoeffding_bound=agg_eps, wit=wit)
    det1, det0 = p >= 1.0, p <= 0.0
    ctx.check(bool((f[det1] == 1.0).all()) and bool((f[det0] == 0.0).all()), "row_with_probability_0_or_1_not_deterministic:" + label,
              p1_freq=f[det1][:5].tolist(), p0_freq=f[det0][:5].tolist(), wit=wit)
    again = np.asarray(predict(0))
    r1, r2 = np.asarray(predict(np.random.RandomState(12345))), np.asarray(predict(np.random.RandomState(12345)))
    for mk in (np.int64, np.int32, np.uint32):  # seeds that come out of numpy (arange elements, randint draws, SeedSequence words)
        a1, a2 = np.asarray(predict(mk(7))), np.asarray(predict(mk(7)))
        ctx.ev("reproducibility_checks")
        ctx.check(bool(np.array_equal(a1, a2)), "same_numpy_integer_seed_different_predictions:" + label, seed_type=mk.__name__, wit=wit)
    ctx.ev("reproducibility_checks", 2)
    ctx.check(bool(np.array_equal(first, again)), "same_seed_different_predictions:" + label, wit=wit)
    # (how an int seed relates to a RandomState is not part of the property: only equal states must give equal answers)
    ctx.check(bool(np.array_equal(r1, r2)), "equal_randomstates_give_different_predictions:" + label, wit=wit)
    for v, nm in ((0.0, "zero"), (1.0 - 2.0 ** -53, "almost_one")):
        out = np.asarray(predict(ExtremeRandomState(v)))
        ctx.ev("extreme_draw_checks")
        ctx.check(bool((out[det1] == 1).all()), "row_with_probability_1_predicts_0_under_extreme_draw:%s:%s" % (nm, label), draw=v, wit=wit)
        ctx.check(bool((out[det0] == 0).all()), "row_with_probability_0_predicts_1_under_extreme_draw:%s:%s" % (nm, label), draw=v, wit=wit)


def run_case(cls, key, seed, ctx):
    from vf.monitors import contracts

    if cls == "repo_tests":
        return contracts.repo_tests_case(ctx, "C10:", key)
    rng = rng_for(seed, ID, cls, key)
    S = n_seeds(ctx.tier)
    if cls == "thresholder":
        run_thresholder(ctx, rng, S)
    elif cls == "eg_class":
        run_eg_class(ctx, rng, S)
    else:
        run_eg_regr(ctx, rng, S)
    contracts.flush_into(ctx, "C10:")


def run_thresholder(ctx, rng, S):
    g, y, s, fam = TL.random_dataset(rng, kmax=4, nmax=30, informative=bool(rng.random() < 0.85))
    constraint, objective, flip, gs = TL.config_random(rng)
    to, X, sf = TL.fit_optimizer(g, y, s, constraint, objective, flip, gs, rng, hostile=False)
    n = len(y)
    wit = {"groups": g, "labels": y, "scores": s, "constraint": constraint, "objective": objective, "flip": flip, "grid_size": gs}
    p = check_pmf(ctx, to._pmf_predict(X, sensitive_features=sf), wit)
    if p is None:
        return
    ctx.mark(["thresholder", constraint, flip, n, len(set(g)), fam], bool(((p > 0) & (p < 1)).any()), sample=wit)
    # query set: duplicates, permutation, unseen scores
    sv = sorted(set(s))
    extra = [sv[0] - 1.0, sv[-1] + 1.0] + [(a + b) / 2 for a, b in zip(sv[:-1], sv[1:])][:6]
    qs, qg = [], []
    for gv in dict.fromkeys(g):
        for val in sv + extra:
            qs.append(val)
            qg.append(gv)
    qs, qg = qs + qs[:10], qg + qg[:10]
    perm = rng.permutation(len(qs)).tolist()
    qs, qg = [qs[i] for i in perm], [qg[i] for i in perm]
    Xq = np.asarray(qs, float).reshape(-1, 1)
    qgc = gen.as_vec(qg, gen.pick(rng, ["list", "ndarray", "series"]), rng)
    pq = check_pmf(ctx, to._pmf_predict(Xq, sensitive_features=qgc), wit)
    if pq is None:
        return
    table = {}
    for i in range(len(qs)):
        k = (qs[i], qg[i])
        ctx.ev("thresholder_consistency_checks")
        if k in table:
            ctx.check(table[k] == pq[i], "thresholder_pmf_differs_for_equal_score_and_group", score=qs[i], group=repr(qg[i]), a=float(table[k]), b=float(pq[i]), wit=wit)
        table[k] = pq[i]
    for i in range(n):
        ctx.check(abs(table[(s[i], g[i])] - p[i]) <= 1e-15, "thresholder_pmf_depends_on_more_than_score_and_group", row=i, wit=wit)
    # the probability of a row must not depend on which other rows/groups are in the query
    glist = list(dict.fromkeys(g))
    for sub in [[gv] for gv in glist] + [glist[1:], glist[::-1][:2]]:
        rows = [i for i in range(len(qs)) if qg[i] in sub]
        if not rows:
            continue
        psub = np.asarray(to._pmf_predict(Xq[rows], sensitive_features=[qg[i] for i in rows]))[:, 1]
        ctx.ev("thresholder_consistency_checks")
        bad = [(qs[i], repr(qg[i]), float(psub[j]), float(table[(qs[i], qg[i])])) for j, i in enumerate(rows) if psub[j] != table[(qs[i], qg[i])]]
        ctx.check(not bad, "thresholder_pmf_depends_on_the_other_rows_of_the_query", groups_in_query=[repr(v) for v in sub], mismatches=bad[:4], wit=wit)
    if not flip:
        for gv in dict.fromkeys(g):
            pts = sorted((sc, pr) for (sc, gg), pr in table.items() if gg == gv)
            ctx.ev("thresholder_consistency_checks")
            ctx.check(all(pts[j + 1][1] >= pts[j][1] - 1e-12 for j in range(len(pts) - 1)), "thresholder_pmf_decreases_with_score_without_flip",
                      group=repr(gv), points=pts[:12], wit=wit)
    sampling_checks(ctx, lambda rs: to.predict(Xq, sensitive_features=qgc, random_state=rs), pq, S, wit, "ThresholdOptimizer")
    it = to.interpolated_thresholder_
    ctx.check(bool(np.array_equal(np.asarray(it.predict(Xq, sensitive_features=qgc, random_state=3)), np.asarray(to.predict(Xq, sensitive_features=qgc, random_state=3)))),
              "interpolated_thresholder_predict_differs_from_optimizer_predict", wit=wit)
    # query rows of a group that did not occur in fit, mixed with rows of known groups: if they are accepted, what is reported for
    # them must still be a distribution (rejecting them is fine), and the rows of known groups keep their probabilities
    unseen = "never_seen_in_fit" if not isinstance(g[0], (int, np.integer)) else 10 ** 6
    qg2 = list(qg[:12]) + [unseen] * 4
    qs2 = list(qs[:12]) + [sv[0] - 5.5, sv[-1] + 7.25, 3.5, -2.5]
    try:
        pu_raw = to._pmf_predict(np.asarray(qs2, float).reshape(-1, 1), sensitive_features=qg2)
    except Exception:  # noqa: BLE001
        ctx.ev("unseen_group_rows_rejected")
        return
    ctx.ev("unseen_group_queries")
    pu = check_pmf(ctx, pu_raw, dict(wit, query_scores=qs2, query_groups=[repr(v) for v in qg2], note="query contains a group absent from fit"))
    if pu is not None:
        bad = [(qs2[i], repr(qg2[i]), float(pu[i]), float(table[(qs2[i], qg2[i])])) for i in range(12) if pu[i] != table[(qs2[i], qg2[i])]]
        ctx.check(not bad, "thresholder_pmf_depends_on_the_other_rows_of_the_query", mismatches=bad[:4], wit=wit)
        lab = np.asarray(to.predict(np.asarray(qs2, float).reshape(-1, 1), sensitive_features=qg2, random_state=5)).ravel()
        ctx.check(set(np.unique(lab).tolist()) <= {0, 1}, "predict_returns_labels_outside_0_1", labels=np.unique(lab).tolist(), wit=wit)


def run_eg_class(ctx, rng, S):
    import fairlearn.reductions as red

    kind = RM.PARITY[int(rng.integers(0, 5))]
    bound = ML.BOUNDS[int(rng.integers(0, len(ML.BOUNDS)))]
    ds = ML.make_dataset(rng, nmin=12, nmax=40, kmax=3, feature_levels=int(rng.integers(3, 6)), control=bool(rng.random() < 0.2))
    moment, ratio, eps = ML.make_moment(kind, bound)
    lp = bool(rng.random() < 0.35)
    if lp:
        cfg = dict(eps=float(gen.pick(rng, [0.02, 0.05, 0.1])), max_iter=int(gen.pick(rng, [5, 10, 20])))
    else:
        # regime in which predictors first discovered during the gap evaluation enter the support later: weights_ out of id order
        cfg = dict(eps=float(gen.pick(rng, [0.2, 0.3, 0.05])), max_iter=int(gen.pick(rng, [10, 20, 40])), eta0=float(gen.pick(rng, [8.0, 30.0])))
    pandas_aware = bool(rng.random() < 0.3)   # a base estimator whose predict() returns a Series indexed like its (shuffled) input frame
    eg = red.ExponentiatedGradient(ExactLearner(hclass=gen.pick(rng, ["cells", "thresholds"]), output="series_like_X" if pandas_aware else "ndarray"),
                                   moment, nu=1e-6, run_linprog_step=lp, **cfg)
    kw = {"sensitive_features": ds.g}
    if ds.c is not None:
        kw["control_features"] = ds.c
    Xfit = pd.DataFrame(ds.X, index=rng.permutation(ds.n)) if pandas_aware else ds.X
    eg.fit(Xfit, ds.y, **kw)
    wit = {"moment": kind, "bound": list(bound), "y": ds.y, "groups": ds.g, "control": ds.c, "x": ds.X[:, 0].tolist(), "lp": lp, "pandas_aware_estimator": pandas_aware,
           "weights": {str(k): float(v) for k, v in eg.weights_.items()}}
    Xq = np.vstack([ds.X, ds.X[rng.permutation(ds.n)[: min(6, ds.n)]]])
    Xq = Xq if (rng.random() < 0.5 and not pandas_aware) else pd.DataFrame(Xq, index=(rng.permutation(len(Xq)) if pandas_aware else gen.hostile_index(len(Xq), gen.pick(rng, gen.INDEX_KINDS), rng)))
    p = check_pmf(ctx, eg._pmf_predict(Xq), wit)
    if p is None:
        return
    w = eg.weights_
    support = [t for t in w.index if w[t] > 0]
    ctx.mark(["eg_class", kind, list(bound), ds.n, len(support), lp, list(w.index) != sorted(w.index)], bool(((p > 0) & (p < 1)).any()), sample=wit)
    ctx.ev("weights_checked")
    ctx.check(bool((np.asarray(w, float) >= -1e-12).all()) and abs(float(w.sum()) - 1.0) <= 1e-9, "weights_not_a_probability_vector", wit=wit)
    if list(w.index) != sorted(w.index):
        ctx.ev("support_out_of_iteration_order")
    mix = np.zeros(len(p))
    for t in w.index:
        if w[t] != 0:
            mix += float(w[t]) * np.asarray(eg.predictors_[t].predict(Xq), float)   # np.asarray: row order of the query, whatever the container
    ctx.ev("mixture_rows_compared", len(p))
    ctx.check(bool(np.allclose(p, mix, atol=1e-12)), "positive_probability_is_not_the_weighted_mixture_of_stored_predictors",
              got=p[:10].tolist(), expected=mix[:10].tolist(), wit=wit)
    sampling_checks(ctx, lambda rs: eg.predict(Xq, random_state=rs), p, S, wit, "ExponentiatedGradient")
    # the same query container edited in place and asked again; single-row queries
    Xe = np.array(np.asarray(Xq), dtype=float, copy=True)
    p_a = np.asarray(eg._pmf_predict(Xe))[:, 1]
    perm = rng.permutation(len(Xe))
    Xe[:] = Xe[perm]
    p_b = np.asarray(eg._pmf_predict(Xe))[:, 1]
    ctx.ev("mixture_rows_compared", len(p_b))
    ctx.check(bool(np.allclose(p_b, mix[perm], atol=1e-12)) and bool(np.allclose(p_a, mix, atol=1e-12)),
              "pmf_of_a_query_edited_in_place_is_not_the_mixture_of_its_current_rows", before=p_a[:8].tolist(), after=p_b[:8].tolist(), expected_after=mix[perm][:8].tolist(), wit=wit)
    if rng.random() < 0.4:
        # the same estimator fitted again on other data after it has answered queries: the pmf must describe the NEW fit
        ds2 = ML.make_dataset(rng, nmin=12, nmax=40, kmax=3, feature_levels=int(ds.X[:, 0].max()) + 1, control=ds.c is not None)
        kw2 = {"sensitive_features": ds2.g}
        if ds2.c is not None:
            kw2["control_features"] = ds2.c
        eg.fit(pd.DataFrame(ds2.X, index=rng.permutation(ds2.n)) if pandas_aware else ds2.X, ds2.y, **kw2)
        w2 = eg.weights_
        mix2 = np.zeros(len(Xe))
        for t in w2.index:
            if w2[t] != 0:
                mix2 += float(w2[t]) * np.asarray(eg.predictors_[t].predict(Xe), float)
        p2 = np.asarray(eg._pmf_predict(Xe))[:, 1]
        ctx.ev("mixture_rows_compared", len(p2))
        ctx.check(bool(np.allclose(p2, mix2, atol=1e-12)), "pmf_after_a_refit_is_not_the_mixture_of_the_new_predictors", got=p2[:8].tolist(), expected=mix2[:8].tolist(),
                  new_weights={str(k): float(v) for k, v in w2.items()}, wit=wit)
        mix = mix2[np.argsort(perm)] if False else None
        return
    for i in (0, len(Xe) - 1):
        one = np.asarray(eg._pmf_predict(Xe[i:i + 1]))
        ctx.ev("mixture_rows_compared")
        ctx.check(one.shape == (1, 2) and abs(one[0, 1] - mix[perm][i]) <= 1e-12 and abs(one.sum() - 1) <= 1e-12, "single_row_query_pmf_wrong", row=int(i), got=one.tolist(),
                  expected=float(mix[perm][i]), wit=wit)
        o1 = np.asarray(eg.predict(Xe[i:i + 1], random_state=0))
        ctx.check(o1.shape == (1,) and o1[0] in (0, 1), "single_row_query_predict_wrong", got=o1.tolist(), wit=wit)


def run_eg_regr(ctx, rng, S):
    import fairlearn.reductions as red

    # regime found by search to produce supports that are NOT in iteration order (predictors first discovered while
    # evaluating the gap get weight later, or never): groups with conflicting target slopes, small B, aggressive eta0
    L = int(rng.integers(3, 7))
    ds = ML.make_dataset(rng, nmin=12, nmax=40, kmax=3, control=False, feature_levels=L, gtype="int")
    gvals = sorted(set(ds.g))
    slope = {a: int(rng.choice([-1, 1])) for a in gvals}
    if len(set(slope.values())) == 1:
        slope[gvals[0]] = -slope[gvals[0]]
    x0 = ds.X[:, 0] / max(1, L - 1)
    base = np.array([x0[i] if slope[ds.g[i]] > 0 else 1 - x0[i] for i in range(ds.n)])
    yv = np.round(np.clip(base + rng.normal(scale=float(gen.pick(rng, [0.05, 0.2, 0.4])), size=ds.n), 0, 1), 2).tolist()
    lname = gen.pick(rng, ["square", "abs"])
    loss = red.SquareLoss(0.0, 1.0) if lname == "square" else red.AbsoluteLoss(0.0, 1.0)
    eg = red.ExponentiatedGradient(ExactRegressor(loss=lname, grid=tuple(np.linspace(0, 1, int(gen.pick(rng, [5, 11, 21]))).tolist())),
                                   red.BoundedGroupLoss(loss, upper_bound=float(gen.pick(rng, [0.005, 0.05, 0.1]))),
                                   eps=float(gen.pick(rng, [0.2, 0.2, 0.05])), max_iter=int(gen.pick(rng, [10, 15, 25])), nu=1e-6,
                                   run_linprog_step=False, eta0=float(gen.pick(rng, [8.0, 30.0, 2.0])))
    eg.fit(ds.X, yv, sensitive_features=ds.g)
    w = eg.weights_
    wit = {"y": yv, "groups": ds.g, "x": ds.X[:, 0].tolist(), "loss": lname, "weights": {str(k): float(v) for k, v in w.items()}}
    support = [t for t in w.index if w[t] > 0]
    out_of_order = list(w.index) != sorted(w.index)
    if out_of_order:
        ctx.ev("support_out_of_iteration_order")
    Xq = ds.X
    pred = eg._pmf_predict(Xq)
    vals = {t: np.asarray(eg.predictors_[t].predict(Xq), float) for t in w.index}
    distinct_rows = sum(1 for i in range(ds.n) if len({vals[t][i] for t in support}) > 1)
    ctx.mark(["eg_regr", lname, ds.n, len(support), out_of_order], distinct_rows > 0, sample=wit)
    ctx.ev("weights_checked")
    ctx.check(bool((np.asarray(w, float) >= -1e-12).all()) and abs(float(w.sum()) - 1.0) <= 1e-9, "weights_not_a_probability_vector", wit=wit)
    # stored per-predictor outputs (columns are predictor ids)
    for t in support:
        ctx.ev("mixture_rows_compared", ds.n)
        ctx.check(t in pred.columns and bool(np.allclose(np.asarray(pred[t], float), vals[t])), "pmf_predict_column_is_not_that_predictors_output", predictor=int(t), wit=wit)
    counts = [dict() for _ in range(ds.n)]
    first = None
    for sd in range(S):
        out = np.asarray(eg.predict(Xq, random_state=sd), float)
        if sd == 0:
            first = out.copy()
        for i in range(ds.n):
            counts[i][out[i]] = counts[i].get(out[i], 0) + 1
    eps = hoeffding_eps(S)
    worst = None
    for i in range(ds.n):
        expp = {}
        for t in support:
            expp[vals[t][i]] = expp.get(vals[t][i], 0.0) + float(w[t])
        for v, c in counts[i].items():
            ctx.ev("frequency_tests")
            if v not in expp:
                ctx.violate("regression_predict_returns_value_of_no_positive_weight_predictor", row=i, value=float(v), allowed=sorted(expp), frequency=c / S, wit=wit)
                return
        for v, pv in expp.items():
            d = abs(counts[i].get(v, 0) / S - pv)
            if worst is None or d > worst[0]:
                worst = (d, i, v, counts[i].get(v, 0) / S, pv)
    ctx.check(worst[0] <= eps, "regression_predictor_choice_frequency_inconsistent_with_weights", row=worst[1], value=worst[2], frequency=worst[3],
              probability=worst[4], hoeffding_bound=eps, seeds=S, wit=wit)
    ctx.ev("reproducibility_checks")
    ctx.check(bool(np.array_equal(first, np.asarray(eg.predict(Xq, random_state=0), float))), "same_seed_different_predictions:regression", wit=wit)
    one = np.asarray(eg.predict(Xq[:1], random_state=1), float)
    allowed = {vals[t][0] for t in support}
    ctx.check(one.shape == (1,) and float(one[0]) in allowed, "single_row_query_predict_wrong:regression", got=one.tolist(), allowed=sorted(allowed), wit=wit)
