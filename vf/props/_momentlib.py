"""Shared workload pieces for the reductions properties (C06-C09): datasets, moments, index alignment."""
from __future__ import annotations

import numpy as np
import pandas as pd

from vf import gen
from vf.refs import moments as RM


class Dataset:
    def __init__(self, X, y, g, c):
        self.X, self.y, self.g, self.c = X, list(y), list(g), (None if c is None else list(c))
        self.n = len(self.y)


def make_dataset(rng, nmin=4, nmax=40, kmax=4, control=None, feature_levels=None, both_labels_per_group=False, gtype=None):
    n = int(rng.integers(nmin, nmax + 1))
    k = int(rng.integers(2, kmax + 1))
    names = {"str": ["a", "b", "c", "d"], "int": [0, 1, 2, 3], "strnum": ["10", "9", "x y", "z"]}[gtype or gen.pick(rng, ["str", "int", "strnum"])]
    gi = gen.skewed_labels(rng, n, k)
    if len(set(gi.tolist())) < 2:
        gi[0], gi[-1] = 0, 1
    g = [names[i] for i in gi]
    py = float(gen.pick(rng, [0.5, 0.3, 0.7, 0.15]))
    y = (rng.random(n) < py).astype(int)
    if y.sum() == 0:
        y[int(rng.integers(0, n))] = 1
    if y.sum() == n:
        y[int(rng.integers(0, n))] = 0
    y = y.tolist()
    if both_labels_per_group:
        for a in dict.fromkeys(g):
            rows = [i for i in range(n) if g[i] == a]
            labs = {y[i] for i in rows}
            for lab in (0, 1):
                if lab not in labs:
                    g.append(a)
                    y.append(lab)
        n = len(y)
    use_control = (rng.random() < 0.5) if control is None else control
    c = None
    if use_control:
        kc = int(rng.integers(1, 4))
        cn = gen.pick(rng, [["u", "v", "w"], [1, 2, 3]])
        c = [cn[i] for i in gen.skewed_labels(rng, n, kc)]
    if feature_levels:
        X = rng.integers(0, feature_levels, size=(n, 1)).astype(float)
    else:
        X = np.round(rng.normal(size=(n, int(rng.integers(1, 4)))), 3)
    return Dataset(X, y, g, c)


BOUNDS = [("diff", None), ("diff", 0.0), ("diff", 0.01), ("diff", 0.05), ("diff", 0.2), ("ratio", (1.0, 0.0)), ("ratio", (0.8, 0.0)),
          ("ratio", (0.5, 0.05)), ("ratio", (0.95, 0.01)), ("ratio", (1.0, 0.1))]


def make_moment(kind, bound):
    import fairlearn.reductions as red

    cls = getattr(red, kind)
    bt, bv = bound
    if bt == "diff":
        m = cls() if bv is None else cls(difference_bound=bv)
        return m, 1.0, (0.01 if bv is None else bv)
    r, slack = bv
    return cls(ratio_bound=r, ratio_bound_slack=slack), float(r), float(slack)


def wrap_inputs(rng, ds, hostile=True):
    """Containers for load_data / fit: returns X, y, sensitive_features, control_features."""
    n = ds.n
    Xk = gen.pick(rng, ["ndarray", "df"]) if hostile else "ndarray"
    X = ds.X if Xk == "ndarray" else pd.DataFrame(ds.X, columns=["f%d" % j for j in range(ds.X.shape[1])],
                                                  index=gen.hostile_index(n, gen.pick(rng, gen.INDEX_KINDS), rng))
    kinds = ["list", "ndarray", "series", "df", "col"] if hostile else ["ndarray"]
    y = gen.as_vec(ds.y, gen.pick(rng, kinds), rng, name="label")
    if isinstance(y, np.ndarray) and hostile:
        # binary labels arrive in whatever integer / boolean / float dtype the caller's pipeline produced
        y = y.astype(gen.pick(rng, [np.int64, np.int8, np.uint8, bool, np.float32, np.float64, np.int64]))
    g = gen.as_vec(ds.g, gen.pick(rng, [k for k in kinds if k != "col"] or kinds), rng, name="grp")
    c = None if ds.c is None else gen.as_vec(ds.c, gen.pick(rng, [k for k in kinds if k != "col"] or kinds), rng, name="ctl")
    return X, y, g, c


def load(moment, X, y, g, c):
    kw = {"sensitive_features": g}
    if c is not None:
        kw["control_features"] = c
    moment.load_data(X, y, **kw)


class FixedPredictor:
    """A 'classifier' that ignores X and returns a prescribed vector (in a chosen container)."""

    def __init__(self, vec, container="ndarray", hostile_kind="reversed", out_dtype=None):
        self.vec, self.container, self.hostile_kind = np.asarray(vec, dtype=float), container, hostile_kind
        self.out_dtype = out_dtype  # hard 0/1 predictions in the dtype a classifier would return (that of its training labels)

    def __call__(self, X):
        out = self._raw(X)
        if self.out_dtype is None:
            return out
        return out.astype(self.out_dtype)

    def _raw(self, X):
        if self.container == "series":
            return pd.Series(self.vec)
        if self.container == "col":
            return self.vec.reshape(-1, 1)
        if self.container == "series_hostile":
            # a pandas-aware predictor: Series whose index is not 0..n-1 in order (rows must still be paired by position)
            n = len(self.vec)
            idx = np.arange(n)[::-1] if self.hostile_kind == "reversed" else (np.roll(np.arange(n), 1) if self.hostile_kind == "rolled" else np.arange(n) + 100)
            return pd.Series(self.vec, index=idx)
        if self.container == "same_array":
            return self.vec  # a predictor that hands out its own stored score array, every time the same object
        return self.vec.copy()


def _eq(a, b):
    try:
        return bool(a == b)
    except Exception:  # noqa: BLE001
        return False


def align_index(moment, kind, ds, ratio, rng, K=4, tol=1e-9):
    """Match every entry of moment.index with the reference entry (sign, event, group) that has the same sign,
    the same group and the same gamma fingerprint on K random soft predictors.
    Returns (mapping index_entry -> ref key, problems list)."""
    idx = list(moment.index)
    hs = [rng.random(ds.n) for _ in range(K)]
    got = [moment.gamma(FixedPredictor(h)) for h in hs]
    ref = [RM.gamma(kind, ds.y, ds.g, h, ratio, ds.c) for h in hs]
    ref_keys = list(ref[0].keys())
    problems = []
    mapping, used, lab2ev_hint = {}, set(), {}

    def candidates(ent):
        s, evl, grp = ent
        fp = [float(gm[ent]) for gm in got]
        return fp, [k for k in ref_keys if k not in used and k[0] == s and _eq(k[2], grp)
                    and all(abs(fp[j] - ref[j][k]) <= tol + 1e-9 * abs(fp[j]) for j in range(K))]

    pending = []
    for ent in idx:
        if not (isinstance(ent, tuple) and len(ent) == 3):
            problems.append(("index_entry_not_a_sign_event_group_triple", repr(ent)))
            continue
        fp, cands = candidates(ent)
        if len(cands) == 1:
            mapping[ent] = cands[0]
            used.add(cands[0])
            lab2ev_hint.setdefault(ent[1], cands[0][1])
        else:
            pending.append(ent)
    # entries whose fingerprints coincide (e.g. an event with a single group and r=1: identically 0) are interchangeable:
    # any perfect matching is as good as another; prefer the event already associated with the entry's label
    for ent in pending:
        fp, cands = candidates(ent)
        if not cands:
            problems.append(("index_entry_matches_no_defined_constraint",
                             {"entry": repr(ent), "fingerprint": fp,
                              "defined_for_group": {repr(k): [ref[j][k] for j in range(K)] for k in ref_keys if k[0] == ent[0] and _eq(k[2], ent[2])}}))
            continue
        pref = [k for k in cands if lab2ev_hint.get(ent[1]) == k[1]] or cands
        mapping[ent] = pref[0]
        used.add(pref[0])
        lab2ev_hint.setdefault(ent[1], pref[0][1])
    missing = [k for k in ref_keys if k not in used]
    if missing:
        problems.append(("defined_constraint_missing_from_index", {"missing": [repr(k) for k in missing[:8]], "index": [repr(e) for e in idx[:16]]}))
    # an event label must denote one event
    lab2ev = {}
    for ent, k in mapping.items():
        if lab2ev.setdefault(ent[1], k[1]) != k[1]:
            problems.append(("one_event_label_used_for_two_events", {"label": repr(ent[1])}))
    return mapping, problems


def lam_series(moment, lam_by_entry):
    return pd.Series([float(lam_by_entry.get(e, 0.0)) for e in moment.index], index=moment.index, dtype=float)


HARD_DTYPES = [None, None, "int64", "uint8", "bool", "int8", "float32"]
