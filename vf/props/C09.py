"""C09 GridSearch trains a faithful best response per grid point and picks the argmin."""
from __future__ import annotations

import numpy as np
import pandas as pd

from vf import gen
from vf.common import close, rng_for
from vf.monitors.learners import ExactLearner, ExactRegressor
from vf.props import _momentlib as ML
from vf.refs import moments as RM
from vf.refs import saddle as RS

ID = "C09"
DECIDING = ["grids_checked", "best_responses_checked", "recorded_values_compared", "selections_checked", "delegation_checks"]
BUDGET = {"quick": 240, "thorough": 1800}
ANCHORED = ["_GridGenerator.__init__", "_GridGenerator.accumulate_integer_grid", "GridSearch.fit", "GridSearch.predict"]
RULE = ("random binary datasets n<=30, 2..4 groups, one feature with 2..5 distinct values; parity moments x 9 bound specs and "
        "BoundedGroupLoss (square/absolute loss, finite per-cell regressor class); grid_size in 2..60, grid_limit in {0.5,2,5}, "
        "constraint_weight in {0,0.3,0.5,1}; base learner exact over an enumerable class, in a quarter of the cases wrapped in a "
        "scikit-learn Pipeline (sample_weight_name='clf__sample_weight'). strict class: every group occurs in every "
        "event (both labels in every group, no control feature) - the multiplier vectors must be grid_size distinct non-negative "
        "vectors with L1 norm <= grid_limit; sparse class: control strata / missing label classes (known finding F9 when a group is "
        "absent from an event). For every column: the predictor attains min over H of err + lambda.gamma (value equality), "
        "objectives_/gammas_ equal what the predictor's predictions really have, best_idx_ attains the minimum trade-off, predict / "
        "predict_proba equal the selected predictor's. distinct = distinct (moment, bound, n, #groups, grid_size, limit, weight, "
        "class); non-trivial = >=2 distinct predictors' prediction vectors among the trained ones. pure class: 2..3 label-pure groups of "
        "equal size (DemographicParity / ErrorRateParity), grid_size in 2..20, grid_limit in {0.5,1,2,3,4}: some lattice points make "
        "every relabelled sample weight exactly zero (counted as event all_zero_weight_grid_points). In a third of the cases the fitted "
        "estimator is re-configured with set_params(grid_size, grid_limit) and fitted again; the second fit is checked the same way.")
ASSUMPTIONS = ["exact base learner over H (harness)", "ties in the arg-min are fine (values compared)"]


def cases(tier, seed):
    k = 160 if tier == "quick" else 5000
    return ([("strict", i) for i in range(k)] + [("sparse", i) for i in range(k // 3)] + [("bgl", i) for i in range(k // 3)]
            + [("pure", i) for i in range(k // 2)])


def grid_checks(ctx, lam, grid_size, grid_limit, wit, strict, absent_pair):
    ctx.ev("grids_checked")
    ctx.check(lam.shape[1] == grid_size, "number_of_multiplier_vectors_differs_from_grid_size", got=int(lam.shape[1]), grid_size=grid_size, wit=wit)
    A = lam.to_numpy(dtype=float)
    ctx.check(bool((A >= -1e-12).all()), "negative_multiplier", min=float(A.min()), wit=wit)
    l1 = np.abs(A).sum(axis=0)
    ctx.check(bool((l1 <= grid_limit * (1 + 1e-9) + 1e-12).all()), "multiplier_l1_norm_exceeds_grid_limit", max_l1=float(l1.max()), grid_limit=grid_limit, wit=wit)
    cols = {tuple(np.round(A[:, j], 12).tolist()) for j in range(A.shape[1])}
    if len(cols) != A.shape[1]:
        mech = "duplicate_multiplier_vectors"
        if absent_pair and not strict:
            mech += ":group_absent_from_an_event"
        ctx.violate(mech, distinct=len(cols), columns=int(A.shape[1]), wit=wit)


def run_case(cls, key, seed, ctx):
    import fairlearn.reductions as red

    rng = rng_for(seed, ID, cls, key)
    if cls == "bgl":
        return run_bgl(ctx, rng, red)
    kind = RM.PARITY[int(rng.integers(0, 5))]
    bound = ML.BOUNDS[int(rng.integers(0, len(ML.BOUNDS)))]
    strict = cls in ("strict", "pure")
    if cls == "pure":
        # label-pure groups of equal size: at some lattice points the constraint weights cancel the objective weights exactly, so the
        # relabelled problem has ALL-ZERO sample weights (every hypothesis is a best response; fit must still train one predictor)
        kind = gen.pick(rng, ["DemographicParity", "ErrorRateParity"])  # one event: every group occurs in it
        k, m = int(rng.integers(2, 4)), int(rng.integers(2, 6))
        names = gen.pick(rng, [["a", "b", "c"], [0, 1, 2]])
        g = [names[i] for i in range(k) for _ in range(m)]
        yv = [i % 2 for i in range(k) for _ in range(m)]
        perm = rng.permutation(k * m)
        ds = ML.Dataset(rng.integers(0, int(rng.integers(2, 5)), size=(k * m, 1)).astype(float)[perm], [yv[i] for i in perm], [g[i] for i in perm], None)
    else:
        ds = ML.make_dataset(rng, nmin=8, nmax=30, kmax=4, feature_levels=int(rng.integers(2, 6)),
                             control=(False if strict else bool(rng.random() < 0.7)), both_labels_per_group=strict)
    moment, ratio, cbound = ML.make_moment(kind, bound)
    hclass = gen.pick(rng, ["cells", "thresholds"])
    gs = int(gen.pick(rng, [2, 3, 5, 8, 13, 20, 33, 60] if cls != "pure" else [2, 3, 4, 5, 7, 8, 9, 13, 20]))
    gl = float(gen.pick(rng, [0.5, 2.0, 5.0] if cls != "pure" else [0.5, 1.0, 2.0, 3.0, 4.0]))
    cw = float(gen.pick(rng, [0.0, 0.3, 0.5, 1.0]))
    composite = bool(rng.random() < 0.25)
    if composite:
        # a composite estimator with nested mutable state: every grid point needs its own deep copy
        from sklearn.pipeline import Pipeline
        from sklearn.preprocessing import FunctionTransformer

        est = red.GridSearch(Pipeline([("noop", FunctionTransformer()), ("clf", ExactLearner(hclass=hclass))]), moment, grid_size=gs, grid_limit=gl,
                             constraint_weight=cw, sample_weight_name="clf__sample_weight")
    else:
        est = red.GridSearch(ExactLearner(hclass=hclass), moment, grid_size=gs, grid_limit=gl, constraint_weight=cw)
    X, y, g, c = ML.wrap_inputs(rng, ds)
    kw = {"sensitive_features": g}
    if c is not None:
        kw["control_features"] = c
    # a used estimator is re-configured with set_params and fitted again in a third of the cases (hyper-parameter sweeps do this):
    # the second fit must honour the grid_size / grid_limit it is configured with at that time
    rounds = [("", gs, gl)]
    if rng.random() < 0.33:
        rounds.append((":after_set_params_and_refit", int(gen.pick(rng, [g_ for g_ in (2, 3, 4, 6, 9, 14, 21) if g_ != gs])),
                       float(gen.pick(rng, [l_ for l_ in (0.5, 1.0, 2.0, 3.0, 5.0) if l_ != gl]))))
    for sfx, gs, gl in rounds:
        if sfx:
            est.set_params(grid_size=gs, grid_limit=gl)
            ctx.ev("refits_after_set_params")
        est.fit(X, y, **kw)
        wit = {"moment": kind, "bound": list(bound), "y": ds.y, "groups": ds.g, "control": ds.c, "x": ds.X[:, 0].tolist(), "hclass": hclass,
               "grid_size": gs, "grid_limit": gl, "constraint_weight": cw, "pipeline_estimator": composite,
               "history": "set_params(grid_size, grid_limit) on the fitted estimator, then fit again" if sfx else "first fit"}
        mom = est.constraints
        mapping, problems = ML.align_index(mom, kind, ds, ratio, rng)
        if problems:
            ctx.violate("index_does_not_match_definition:" + problems[0][0], detail=problems[0][1], wit=wit)
            continue
        ref_entries = RM.entries(kind, ds.y, ds.g, ds.c)
        events = {e for (_, e, _) in ref_entries}
        absent_pair = len({(e, a) for (_, e, a) in ref_entries}) < len(events) * len(set(ds.g))
        lam = est.lambda_vecs_
        grid_checks(ctx, lam, gs, gl, wit, strict, absent_pair)
        tab = RS.Table(kind, ds, ratio, cbound, ExactLearner.hypotheses(ds.X[:, 0], hclass))
        preds = []
        ok = ctx.check(len(est.predictors_) == lam.shape[1] == len(est.objectives_) == est.gammas_.shape[1], "fitted_attributes_differ_in_length" + sfx,
                       predictors=len(est.predictors_), lambdas=int(lam.shape[1]), objectives=len(est.objectives_), gammas=int(est.gammas_.shape[1]), wit=wit)
        if not ok:
            continue
        for pos, col in enumerate(lam.columns):
            pred = np.asarray(est.predictors_[pos].predict(ds.X), float)
            preds.append(tuple(pred.tolist()))
            if cls == "pure":
                w_ref = RM.signed_weights(kind, ds.y, ds.g, {mapping[e]: float(lam[col][e]) for e in mom.index}, ratio, ds.c)
                if kind != "ErrorRateParity":  # the error objective is added unless it lies in the span of the constraint
                    w_ref = w_ref + RM.error_weights(ds.y)
                if bool(np.all(np.abs(w_ref) < 1e-12)):
                    ctx.ev("all_zero_weight_grid_points")
            e_h, g_h = tab.of(pred)
            lv = tab.lam_vec({mapping[e]: float(lam[col][e]) for e in mom.index})
            val = e_h + float(g_h @ lv)
            best = float((tab.err + tab.G @ lv).min())
            ctx.ev("best_responses_checked")
            ctx.check(val <= best + 1e-9, "predictor_is_not_a_best_response_to_its_multiplier_vector" + sfx, column=repr(col), value=val, minimum_over_class=best,
                      lam={repr(k): float(v) for k, v in lam[col].items() if v != 0}, wit=wit)
            ctx.ev("recorded_values_compared", 1 + len(tab.keys))
            ctx.check(close(est.objectives_[pos], e_h, 1e-10, 1e-12), "recorded_objective_differs_from_the_predictors_error" + sfx, column=repr(col),
                      recorded=float(est.objectives_[pos]), real=e_h, wit=wit)
            gcol = est.gammas_[col]
            bad = [(repr(e), float(gcol[e]), float(g_h[tab.keys.index(mapping[e])])) for e in mom.index
                   if not close(gcol[e], g_h[tab.keys.index(mapping[e])], 1e-10, 1e-12)]
            ctx.check(not bad, "recorded_gamma_differs_from_the_predictors_constraint_values" + sfx, column=repr(col), mismatches=bad[:4], wit=wit)
        if not sfx:
            ctx.mark([cls, kind, list(bound), ds.n, len(set(ds.g)), gs, gl, cw, hclass, composite, len(rounds)], len(set(preds)) >= 2,
                     sample={k: wit[k] for k in ("moment", "bound", "y", "groups", "control", "x", "grid_size", "grid_limit", "constraint_weight")})
        selection_and_delegation(ctx, est, lam, ds.X, cw, wit, proba=True)




def selection_and_delegation(ctx, est, lam, X, cw, wit, proba):
    losses = [(1 - cw) * float(est.objectives_[i]) + cw * float(est.gammas_[col].max()) for i, col in enumerate(lam.columns)]
    ctx.ev("selections_checked")
    bi = est.best_idx_
    if ctx.check(isinstance(bi, (int, np.integer)) and 0 <= bi < len(losses), "best_idx_out_of_range", best_idx=repr(bi), wit=wit):
        ctx.check(losses[bi] <= min(losses) + 1e-12, "selected_model_does_not_minimise_the_tradeoff", best_idx=int(bi), loss_at_best=losses[bi],
                  minimum=min(losses), argmin=int(np.argmin(losses)), wit=wit)
        Xq = np.vstack([X, X[::-1][:5]])
        ctx.ev("delegation_checks")
        ctx.check(bool(np.array_equal(np.asarray(est.predict(Xq)), np.asarray(est.predictors_[bi].predict(Xq)))), "predict_does_not_delegate_to_the_selected_model", wit=wit)
        if proba:
            ctx.check(bool(np.array_equal(np.asarray(est.predict_proba(Xq)), np.asarray(est.predictors_[bi].predict_proba(Xq)))),
                      "predict_proba_does_not_delegate_to_the_selected_model", wit=wit)


def run_bgl(ctx, rng, red):
    ds = ML.make_dataset(rng, nmin=8, nmax=30, kmax=4, control=False, feature_levels=int(rng.integers(2, 5)))
    yv = np.round(rng.random(ds.n), 2)
    lname = gen.pick(rng, ["square", "abs"])
    loss = red.SquareLoss(0.0, 1.0) if lname == "square" else red.AbsoluteLoss(0.0, 1.0)
    gs = int(gen.pick(rng, [2, 3, 6, 11, 20, 40]))
    gl = float(gen.pick(rng, [0.5, 2.0, 5.0]))
    cw = float(gen.pick(rng, [0.0, 0.5, 1.0]))
    grid = (0.0, 0.25, 0.5, 0.75, 1.0)
    est = red.GridSearch(ExactRegressor(grid=grid, loss=lname), red.BoundedGroupLoss(loss, upper_bound=0.1), grid_size=gs, grid_limit=gl, constraint_weight=cw)
    est.fit(ds.X, gen.as_vec(yv.tolist(), gen.pick(rng, ["list", "ndarray", "series"]), rng), sensitive_features=gen.as_vec(ds.g, gen.pick(rng, ["list", "ndarray", "series"]), rng))
    n = ds.n
    wit = {"y": yv.tolist(), "groups": ds.g, "x": ds.X[:, 0].tolist(), "loss": lname, "grid_size": gs, "grid_limit": gl, "constraint_weight": cw}
    lam = est.lambda_vecs_
    grid_checks(ctx, lam, gs, gl, wit, True, False)
    pg = {a: sum(1 for v in ds.g if v == a) / n for a in set(ds.g)}
    x = ds.X[:, 0]
    preds = []
    for pos, col in enumerate(lam.columns):
        pred = np.asarray(est.predictors_[pos].predict(ds.X), float)
        preds.append(tuple(pred.tolist()))
        lv = RM.loss_values(lname, yv, pred, 0.0, 1.0)
        w = np.array([float(lam[col][a]) / pg[a] for a in ds.g])
        val = float(np.dot(w, lv) / n)
        best = 0.0
        for v in sorted(set(x.tolist())):
            rows = x == v
            best += min(float(np.dot(w[rows], RM.loss_values(lname, yv[rows], np.full(int(rows.sum()), gv), 0.0, 1.0))) for gv in grid) / n
        ctx.ev("best_responses_checked")
        ctx.check(val <= best + 1e-9, "regressor_is_not_a_best_response_to_its_multiplier_vector", column=repr(col), value=val, minimum_over_class=best, wit=wit)
        gl_ref = RM.group_loss(lname, yv, ds.g, pred, 0.0, 1.0)
        ctx.ev("recorded_values_compared", 1 + len(gl_ref))
        ctx.check(close(est.objectives_[pos], float(lv.mean()), 1e-10, 1e-12), "recorded_objective_differs_from_the_predictors_mean_loss", column=repr(col),
                  recorded=float(est.objectives_[pos]), real=float(lv.mean()), wit=wit)
        ctx.check(all(close(est.gammas_[col][a], v, 1e-10, 1e-12) for a, v in gl_ref.items()), "recorded_gamma_differs_from_the_predictors_group_losses",
                  column=repr(col), recorded={repr(a): float(est.gammas_[col][a]) for a in gl_ref}, real={repr(a): v for a, v in gl_ref.items()}, wit=wit)
    ctx.mark(["bgl", lname, n, len(pg), gs, gl, cw], len(set(preds)) >= 2, sample=wit)
    selection_and_delegation(ctx, est, lam, ds.X, cw, wit, proba=False)
