"""C06 Constraint moments measure exactly the documented parity violations."""
from __future__ import annotations

import numpy as np
import pandas as pd

from vf import gen
from vf.common import close, rng_for
from vf.props import _momentlib as ML
from vf.refs import moments as RM
from vf.refs import rates as R

ID = "C06"
DECIDING = ["index_alignments", "gamma_entries_compared", "bound_entries_compared", "metricframe_entries_compared", "loss_gamma_compared"]
BUDGET = {"quick": 150, "thorough": 1500}
ANCHORED = ["UtilityParity.load_data", "UtilityParity.gamma", "UtilityParity.bound", "_combine_event_and_control",
            "ConditionalLossMoment.gamma", "ErrorRate.gamma"]
RULE = ("random binary datasets n in 4..40, 2..4 groups (skewed), control feature in half of the cases with 1..3 strata (so that "
        "(stratum,group) and (stratum,label) combinations are absent), inputs in every accepted container with hostile pandas "
        "indexes; 5 parity moments x 9 bound specs (difference bounds, ratio bounds with slack); hard and soft predictors "
        "returned as ndarray/Series/(n,1). The index is aligned with the definition by sign, group and gamma fingerprints on 4 "
        "random soft predictors (label-agnostic), then gamma on further predictors, bound(), and for r=1 hard predictions the '+' "
        "entries vs MetricFrame by_group-overall. loss: BoundedGroupLoss (square/absolute/zero-one, clipping) and ErrorRate "
        "with costs. distinct = distinct (moment, bound, n, #groups, #strata, (event,group) pairs present, absent pairs?); "
        "non-trivial = >=2 groups in some event.")
ASSUMPTIONS = ["binary labels", "predictions in [0,1] for parity moments", "event labels are never interpreted - only matched"]


def cases(tier, seed):
    k = 900 if tier == "quick" else 36000
    return [("parity", i) for i in range(k)] + [("loss", i) for i in range(k // 3)] + [("reload", i) for i in range(k // 4)]


def run_case(cls, key, seed, ctx):
    rng = rng_for(seed, ID, cls, key)
    if cls == "loss":
        return run_loss(ctx, rng)
    kind = RM.PARITY[int(rng.integers(0, 5))]
    bound = ML.BOUNDS[int(rng.integers(0, len(ML.BOUNDS)))]
    moment, ratio, eps = ML.make_moment(kind, bound)
    if cls == "reload":
        # the same moment object is loaded with other data first (what a refit / clone-then-fit of a reduction does)
        ds0 = ML.make_dataset(rng)
        X0, y0, g0, c0 = ML.wrap_inputs(rng, ds0)
        ML.load(moment, X0, y0, g0, c0)
        moment.gamma(ML.FixedPredictor(rng.random(ds0.n)))
        moment.signed_weights(pd.Series(1.0, index=moment.index))
        same_n = rng.random() < 0.6
        ds = ML.make_dataset(rng, nmin=ds0.n if same_n else 4, nmax=ds0.n if same_n else 40, control=(ds0.c is not None) if same_n else None)
    else:
        ds = ML.make_dataset(rng)
    X, y, g, c = ML.wrap_inputs(rng, ds)
    ML.load(moment, X, y, g, c)
    ref_entries = RM.entries(kind, ds.y, ds.g, ds.c)
    pairs = sorted({(repr(e), repr(a)) for (_, e, a) in ref_entries})
    n_events = len({e for (_, e, _) in ref_entries})
    full = len(pairs) == n_events * len(set(ds.g))
    ctx.mark([cls, kind, list(bound), ds.n, len(set(ds.g)), None if ds.c is None else len(set(ds.c)), len(pairs), full],
             any(sum(1 for p in pairs if p[0] == ev) >= 2 for ev in {p[0] for p in pairs}),
             sample={"moment": kind, "bound": list(bound), "y": ds.y, "groups": ds.g, "control": ds.c})
    wit = {"moment": kind, "bound": list(bound), "y": ds.y, "groups": ds.g, "control": ds.c, "loaded_before": cls == "reload",
           "containers": [type(X).__name__, type(y).__name__, type(g).__name__, type(c).__name__]}
    mapping, problems = ML.align_index(moment, kind, ds, ratio, rng)
    ctx.ev("index_alignments")
    for mech, det in problems[:3]:
        ctx.violate(mech, detail=det, index=[repr(e) for e in list(moment.index)[:24]], wit=wit)
    if problems:
        return
    ctx.check(len(list(moment.index)) == len(ref_entries), "index_size_differs_from_twice_the_occurring_event_group_pairs",
              got=len(list(moment.index)), expected=len(ref_entries), wit=wit)
    # gamma on hard and soft predictors in different containers
    for j in range(3):
        style = ["hard", "soft", "extreme"][j]
        h = {"hard": rng.integers(0, 2, size=ds.n).astype(float), "soft": rng.random(ds.n),
             "extreme": np.where(rng.random(ds.n) < 0.5, 0.0, 1.0) * (rng.random() < 0.5)}[style]
        pcont = gen.pick(rng, ["ndarray", "series", "col", "series_hostile"])
        pdt = None if style == "soft" else gen.pick(rng, ML.HARD_DTYPES)
        got = moment.gamma(ML.FixedPredictor(h, pcont, gen.pick(rng, ["reversed", "rolled", "offset"]), out_dtype=pdt))
        ref = RM.gamma(kind, ds.y, ds.g, h, ratio, ds.c)
        for ent, k in mapping.items():
            ctx.ev("gamma_entries_compared")
            ctx.check(close(got[ent], ref[k], 1e-10, 1e-12), "gamma_entry_differs_from_definition", entry=repr(ent), defined_as=repr(k),
                      got=float(got[ent]), expected=ref[k], prediction=h.tolist(), prediction_container=pcont, prediction_dtype=pdt, label_dtype=str(getattr(y, "dtype", type(y).__name__)), wit=wit)
    # a predictor may return its own stored float64 score array, the same object on every call: gamma must not depend on
    # how often it was asked, nor write into the caller's array
    hs = rng.random(ds.n)
    keep = hs.copy()
    fp_same = ML.FixedPredictor(hs, "same_array")
    fp_same.vec = hs
    ref = RM.gamma(kind, ds.y, ds.g, keep, ratio, ds.c)
    for call in (1, 2, 3):
        got = moment.gamma(fp_same)
        for ent, k in mapping.items():
            ctx.ev("gamma_entries_compared")
            ctx.check(close(got[ent], ref[k], 1e-10, 1e-12), "gamma_changes_when_the_same_prediction_array_is_evaluated_again", call=call, entry=repr(ent),
                      got=float(got[ent]), expected=ref[k], wit=wit)
    ctx.check(bool(np.array_equal(hs, keep)), "gamma_overwrites_the_predictions_array_of_the_caller", before=keep[:6].tolist(), after=hs[:6].tolist(), wit=wit)
    b = moment.bound()
    for ent in mapping:
        ctx.ev("bound_entries_compared")
        ctx.check(close(b[ent], eps, 0, 1e-15), "bound_is_not_the_configured_slack", entry=repr(ent), got=float(b[ent]), expected=eps, wit=wit)
    ctx.check(len(b) == len(list(moment.index)), "bound_index_differs_from_moment_index", wit=wit)
    # r = 1: '+' entries = MetricFrame by_group - overall of the matching rate (hard predictions)
    if ratio == 1.0:
        from fairlearn.metrics import MetricFrame, false_positive_rate, selection_rate, true_positive_rate

        h = rng.integers(0, 2, size=ds.n)
        got = moment.gamma(ML.FixedPredictor(h.astype(float)))

        def err_rate(y_true, y_pred):
            return float(np.mean(np.asarray(y_true) != np.asarray(y_pred)))
        fns = {"DemographicParity": {"all": selection_rate}, "ErrorRateParity": {"all": err_rate},
               "TruePositiveRateParity": {"y=1": true_positive_rate}, "FalsePositiveRateParity": {"y=0": false_positive_rate},
               "EqualizedOdds": {"y=1": true_positive_rate, "y=0": false_positive_rate}}[kind]
        mf = MetricFrame(metrics=fns, y_true=ds.y, y_pred=h.tolist(), sensitive_features={"grp": ds.g},
                         control_features=None if ds.c is None else {"ctl": ds.c})
        for ent, (s, (st, evname), a) in mapping.items():
            if s != "+":
                continue
            if ds.c is None:
                val = mf.by_group.loc[a, evname] - mf.overall[evname]
            else:
                val = mf.by_group.loc[(st, a), evname] - mf.overall.loc[st, evname]
            ctx.ev("metricframe_entries_compared")
            ctx.check(close(got[ent], val, 1e-10, 1e-12), "plus_entry_differs_from_metricframe_by_group_minus_overall", entry=repr(ent),
                      got=float(got[ent]), metricframe=float(val), prediction=h.tolist(), wit=wit)


def run_loss(ctx, rng):
    import fairlearn.reductions as red

    ds = ML.make_dataset(rng, control=False)
    which = gen.pick(rng, ["bgl_square", "bgl_abs", "bgl_zero_one", "error_rate"])
    wit = {"which": which, "y": ds.y, "groups": ds.g}
    if which == "error_rate":
        costs = gen.pick(rng, [None, {"fp": 1.0, "fn": 1.0}, {"fp": 0.2, "fn": 3.0}, {"fp": 2.0, "fn": 0.0}, {"fp": 0.0, "fn": 0.7}])
        m = red.ErrorRate() if costs is None else red.ErrorRate(costs=costs)
        X, y, g, _ = ML.wrap_inputs(rng, ds)
        m.load_data(X, y, sensitive_features=g)
        fp, fn = (1.0, 1.0) if costs is None else (costs["fp"], costs["fn"])
        ctx.mark([which, repr(costs), ds.n], True, sample={**wit, "costs": costs})
        for style in ("hard", "soft"):
            h = rng.integers(0, 2, size=ds.n).astype(float) if style == "hard" else rng.random(ds.n)
            pdt = gen.pick(rng, ML.HARD_DTYPES) if style == "hard" else None
            got = m.gamma(ML.FixedPredictor(h, gen.pick(rng, ["ndarray", "series", "col", "series_hostile"]), gen.pick(rng, ["reversed", "rolled"]), out_dtype=pdt))
            ctx.ev("loss_gamma_compared")
            ctx.check(len(got) == 1 and close(got.iloc[0], RM.error_rate(ds.y, h, fp, fn), 1e-10, 1e-12),
                      "error_rate_gamma_differs_from_cost_weighted_error", costs=costs, got=repr(got), expected=RM.error_rate(ds.y, h, fp, fn),
                      prediction=h.tolist(), prediction_dtype=pdt, label_dtype=str(getattr(y, "dtype", type(y).__name__)), wit=wit)
        return
    lo, hi = gen.pick(rng, [(0.0, 1.0), (-1.0, 2.0), (0.2, 0.6), (0.0, 5.0)])
    if which == "bgl_zero_one":
        loss, lname, lo, hi = red.ZeroOneLoss(), "abs", 0.0, 1.0
        yv = list(ds.y)
    else:
        lname = "square" if which == "bgl_square" else "abs"
        loss = red.SquareLoss(lo, hi) if lname == "square" else red.AbsoluteLoss(lo, hi)
        yv = np.round(rng.uniform(lo - 0.5, hi + 0.5, size=ds.n), 3).tolist()
    ub = float(gen.pick(rng, [0.05, 0.1, 0.5]))
    m = red.BoundedGroupLoss(loss, upper_bound=ub)
    X = ds.X if rng.random() < 0.5 else pd.DataFrame(ds.X)
    yk = gen.as_vec(yv, gen.pick(rng, ["list", "ndarray", "series"]), rng)
    if which == "bgl_zero_one" and isinstance(yk, np.ndarray):
        yk = yk.astype(gen.pick(rng, [np.int64, np.uint8, bool, np.int8, np.float32]))  # 0/1 labels in the caller's dtype
    gk = gen.as_vec(ds.g, gen.pick(rng, ["list", "ndarray", "series"]), rng)
    m.load_data(X, yk, sensitive_features=gk)
    ctx.mark([which, lo, hi, ds.n, len(set(ds.g))], True, sample={**wit, "y_values": yv, "clip": [lo, hi]})
    for rnd in range(2):
        h = np.round(rng.uniform(lo - 0.7, hi + 0.7, size=ds.n), 3)
        pdt = None
        if which == "bgl_zero_one" and rnd == 1:
            h = rng.integers(0, 2, size=ds.n).astype(float)  # a classifier's hard predictions, in the dtype of its labels
            pdt = gen.pick(rng, ML.HARD_DTYPES)
        got = m.gamma(ML.FixedPredictor(h, gen.pick(rng, ["ndarray", "series_hostile"]), gen.pick(rng, ["reversed", "rolled"]), out_dtype=pdt))
        ref = RM.group_loss(lname, yv, ds.g, h, lo, hi)
        ctx.check(set(map(repr, got.index)) == set(map(repr, ref.keys())), "group_loss_index_is_not_the_set_of_groups", got=list(map(repr, got.index)), wit=wit)
        for a, v in ref.items():
            ctx.ev("loss_gamma_compared")
            ctx.check(a in got.index and close(got[a], v, 1e-10, 1e-12), "group_loss_gamma_differs_from_mean_clipped_loss", group=repr(a),
                      got=repr(got.get(a)), expected=v, prediction=h.tolist(), prediction_dtype=pdt, label_dtype=str(getattr(yk, "dtype", type(yk).__name__)),
                      y_values=yv, clip=[lo, hi], wit=wit)
    b = m.bound()
    ctx.ev("bound_entries_compared")
    ctx.check(all(close(v, ub, 0, 1e-15) for v in b) and len(b) == len(ref), "bound_is_not_the_configured_slack", got=repr(b), expected=ub)
