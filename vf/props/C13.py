"""C13 Multiple sensitive/control columns group rows by tuple equality, collision-free."""
from __future__ import annotations

import numpy as np
import pandas as pd

from vf import gen
from vf.common import rng_for
from vf.monitors.recording import RecordingMetric
from vf.props import _tolib as TL
from vf.refs import threshold_opt as RT

ID = "C13"
DECIDING = ["moment_partitions_compared", "metricframe_partitions_compared", "thresholder_key_counts", "predict_time_rows_compared"]
BUDGET = {"quick": 150, "thorough": 1500}
ANCHORED = ["_merge_columns", "_validate_and_reformat_input", "InterpolatedThresholder._pmf_predict", "UtilityParity.load_data"]
RULE = ("feature tables with 2..3 string columns over alphabets containing ',', '\\\\', '\\\\,', '\\\\\\\\', empty strings, inner "
        "spaces and numeric-looking values ('1','1.0','01'), seeded with tuples built so that naive joins collide ('a,b'+'c' vs "
        "'a'+'b,c'; 'a\\\\'+'b' vs 'a'+'\\\\b'); given as DataFrame / 2-D ndarray / list of lists; ~15% numeric tables (float64/int64 values that differ beyond the 6th..16th significant digit). moments: the partition induced by "
        "DemographicParity (sensitive and control columns), EqualizedOdds and BoundedGroupLoss is recovered through the public "
        "signed_weights/index and compared with the tuple partition and with MetricFrame's (recording metric); GridSearch / "
        "ExponentiatedGradient fitted end to end with the table must record the constraint values of the true tuple groups. thresholder: "
        "interpolation_dict has one rule per tuple, the C04 parity oracle holds on the TRUE tuple groups, and _pmf_predict on "
        "permuted rows, sub-tables (single groups, tables lacking some values) and held-out rows gives every row the "
        "probability its (score, tuple) got in the full training table. distinct = distinct (#columns, #tuples, container, "
        "special characters present, collision pairs present); non-trivial = >=2 distinct tuples.")
ASSUMPTIONS = ["string feature values without NUL and without trailing whitespace; numeric feature values without NaN, -0.0 and |int| > 2**53", "every tuple group contains both labels "
               "(ThresholdOptimizer precondition)"]

ALPHABET = ["a", "b", "a,b", "b,c", "c", ",", "", "\\", "a\\", "\\b", "\\,", "\\\\", ",\\", "a b", " x", "1", "1.0", "01", "x,", ",x", "a\\,b"]
COLLIDERS2 = [[("a,b", "c"), ("a", "b,c")], [("a\\", "b"), ("a", "\\b")], [(",", ""), ("", ",")], [("a\\,b", "c"), ("a\\", "b,c")],
              [("a,", "b"), ("a", ",b")], [("\\", ","), ("\\,", "")], [("x\\\\", "y"), ("x\\", "\\y")], [("1", "1.0"), ("1.0", "1")]]
# tuples whose cells all have the length of the longest cell and differ only near the END of the escaped, joined string
COLLIDERS2 += [[("a,", "b,"), ("a,", "b"), ("a,", "b\\")], [(",,", ",a"), (",,", ",b"), (",,", ",,")], [("x\\", "y\\"), ("x\\", "y,"), ("x\\", "yz")],
               [("ab", "c,"), ("ab", "c\\"), ("ab", "cd")]]
COLLIDERS3 = [[("x", "", ","), ("x", ",", "")], [("a,b", "c", "d"), ("a", "b,c", "d")], [("a", "b,c", "d"), ("a", "b", "c,d")],
              [("a\\", ",", "b"), ("a", "\\,", "b")], [("a,", "b,", "c,"), ("a,", "b,", "c"), ("a,", "b,", "c\\")], [("1", "2", "3.0"), ("1", "2", "3")]]


# numeric tables (the statement's "numeric-looking values" given as numbers): values that differ only beyond the 6th..16th
# significant digit, so that any lossy number->string conversion ("%g", float32, rounding) fuses two groups. -0.0, NaN and
# integers beyond 2**53 are not generated (their string and numeric equality differ legitimately).
NUM_NEAR = [[1234567.0, 1234568.0], [1000000.5, 1000000.25], [0.1 + 0.2, 0.3], [1e-7, 1.0000001e-7], [1e16, 1e16 + 2.0],
            [123456789.0, 123456788.0], [16777216.0, 16777217.0], [0.1, 0.10000000000000002], [1.0, 1.0000001], [3.0, 3.5]]
NUM_PLAIN = [0.0, 1.0, 2.0, 0.5, 10.0, 100.0, 1e6, 1e-3, 7.25, 65536.0]
INT_NEAR = [[1234567, 1234568], [16777216, 16777217], [12345678901, 12345678902], [1, 10], [100000, 1000000]]


def gen_numeric_table(rng, ncols, ntuples_max=5):
    ints = rng.random() < 0.3
    near = INT_NEAR if ints else NUM_NEAR
    plain = [int(v) for v in NUM_PLAIN if float(v).is_integer()] if ints else NUM_PLAIN
    pair = near[int(rng.integers(0, len(near)))]
    col = int(rng.integers(0, ncols))
    base = [plain[int(rng.integers(0, len(plain)))] for _ in range(ncols)]
    tuples = []
    for v in pair:                      # tuples that differ in one cell only, by a nearly equal number
        t = list(base)
        t[col] = v
        tuples.append(tuple(t))
    k = int(rng.integers(2, ntuples_max + 1))
    allv = plain + [v for pr in near for v in pr]
    while len(tuples) < k:
        t = tuple(allv[int(rng.integers(0, len(allv)))] for _ in range(ncols))
        if t not in tuples:
            tuples.append(t)
    return tuples, ints


def as_numeric_table(rng, rows, ncols, names, ints):
    kind = gen.pick(rng, ["df", "ndarray", "lists"])
    dt = np.int64 if ints else np.float64
    if kind == "df":
        return pd.DataFrame(np.asarray(rows, dtype=dt), columns=names,
                            index=gen.hostile_index(len(rows), gen.pick(rng, gen.INDEX_KINDS), rng)), "num_df"
    if kind == "ndarray":
        return np.asarray(rows, dtype=dt).reshape(len(rows), ncols), "num_ndarray"
    return [list(r) for r in rows], "num_lists"


def cases(tier, seed):
    k = 420 if tier == "quick" else 12000
    return [("moments", i) for i in range(k)] + [("thresholder", i) for i in range(k // 2)]


def gen_table(rng, ncols, ntuples_max=5):
    tuples = []
    pool = COLLIDERS2 if ncols == 2 else COLLIDERS3
    if rng.random() < 0.8:
        tuples += [tuple(t) for t in pool[int(rng.integers(0, len(pool)))]]
        if rng.random() < 0.3:
            for t in pool[int(rng.integers(0, len(pool)))]:
                if tuple(t) not in tuples:
                    tuples.append(tuple(t))
    k = int(rng.integers(2, ntuples_max + 1))
    while len(tuples) < k:
        t = tuple(ALPHABET[int(rng.integers(0, len(ALPHABET)))] for _ in range(ncols))
        if t not in tuples:
            tuples.append(t)
    return tuples


def as_table(rng, rows, ncols, names):
    if rows and not isinstance(rows[0][0], str):
        return as_numeric_table(rng, rows, ncols, names, isinstance(rows[0][0], int))
    kind = gen.pick(rng, ["df", "ndarray", "lists"])
    if kind == "df":
        return pd.DataFrame(rows, columns=names, index=gen.hostile_index(len(rows), gen.pick(rng, gen.INDEX_KINDS), rng)), kind
    if kind == "ndarray":
        return np.asarray(rows, dtype=object if rng.random() < 0.5 else str).reshape(len(rows), ncols), kind
    return [list(r) for r in rows], kind


def tuple_partition(rows):
    out = {}
    for i, r in enumerate(rows):
        out.setdefault(tuple(r), []).append(i)
    return out


def norm_partition(parts):
    return sorted(sorted(p) for p in parts)


def run_case(cls, key, seed, ctx):
    rng = rng_for(seed, ID, cls, key)
    ncols = int(gen.pick(rng, [2, 2, 3]))
    if rng.random() < 0.15:
        tuples, ints = gen_numeric_table(rng, ncols)
        specials = ["int" if ints else "float"]
        ctx.ev("numeric_tables")
    else:
        tuples = gen_table(rng, ncols)
        specials = sorted({ch for t in tuples for v in t for ch in v if ch in ",\\ "})
    if cls == "moments":
        return run_moments(ctx, rng, ncols, tuples, specials)
    return run_thresholder(ctx, rng, ncols, tuples, specials)


def run_moments(ctx, rng, ncols, tuples, specials):
    import fairlearn.reductions as red
    from fairlearn.metrics import MetricFrame

    n = int(rng.integers(len(tuples), 17))
    assign = list(range(len(tuples))) + rng.integers(0, len(tuples), size=n - len(tuples)).tolist()
    rng.shuffle(assign)
    rows = [tuples[i] for i in assign]
    y = rng.integers(0, 2, size=n).tolist()
    names = ["sa", "sb", "sc"][:ncols]
    table, kind = as_table(rng, rows, ncols, names)
    part = tuple_partition(rows)
    exp = norm_partition(part.values())
    ctx.mark(["moments", ncols, len(part), kind, specials], len(part) >= 2, sample={"rows": [list(r) for r in rows], "container": kind})
    wit = {"rows": [list(r) for r in rows], "container": kind, "y": y}
    X = np.arange(n, dtype=float).reshape(-1, 1)
    # --- DemographicParity with multi-column sensitive features: membership through signed_weights of each '+' entry
    dp = red.DemographicParity()
    dp.load_data(X, y, sensitive_features=table)
    idx = list(dp.index)
    plus = [e for e in idx if e[0] == "+"]
    ctx.ev("moment_partitions_compared")
    ctx.check(len(plus) == len(part), "number_of_groups_differs_from_number_of_distinct_tuples", groups=len(plus), tuples=len(part),
              index=[repr(e) for e in idx], wit=wit)
    got_parts = []
    for e in plus:
        lam = pd.Series(0.0, index=dp.index)
        lam[e] = 1.0
        w = np.asarray(dp.signed_weights(lam), float)
        got_parts.append([i for i in range(n) if abs(w[i] - 1.0) > 1e-9])  # w_i = 1 - n*[i in g]/n_g
    ctx.check(norm_partition(got_parts) == exp, "moment_groups_are_not_the_tuple_groups", got=norm_partition(got_parts), expected=exp,
              index=[repr(e) for e in idx], wit=wit)
    # --- the same table as control features (single sensitive column): one event per distinct control tuple
    sfs = ["u" if rng.random() < 0.5 else "v" for _ in range(n)]
    dpc = red.DemographicParity()
    dpc.load_data(X, y, sensitive_features=sfs, control_features=table)
    events = {e[1] for e in dpc.index}
    ctx.ev("moment_partitions_compared")
    ctx.check(len(events) == len(part), "number_of_control_strata_differs_from_number_of_distinct_control_tuples", strata=len(events),
              tuples=len(part), index=[repr(e) for e in list(dpc.index)[:12]], wit=wit)
    strata_parts = {}
    for e in dpc.index:
        if e[0] != "+":
            continue
        lam = pd.Series(0.0, index=dpc.index)
        lam[e] = 1.0
        w = np.asarray(dpc.signed_weights(lam), float)
        strata_parts.setdefault(e[1], set()).update(i for i in range(n) if abs(w[i]) > 1e-12)  # rows of the event carry non-zero weight
    # a stratum with a single sensitive group has all-zero weights (r=1): recover only multi-group strata
    multi = [sorted(v) for v in strata_parts.values() if v]
    exp_multi = [rows_ for rows_ in exp if len({sfs[i] for i in rows_}) >= 2]
    ctx.check(sorted(multi) == sorted(exp_multi), "control_strata_are_not_the_tuple_groups", got=sorted(multi), expected=sorted(exp_multi), wit=wit)
    # --- BoundedGroupLoss index = one entry per tuple; EqualizedOdds '+' entries per (label, tuple) pair
    bgl = red.BoundedGroupLoss(red.ZeroOneLoss(), upper_bound=0.1)
    bgl.load_data(X, y, sensitive_features=table)
    gl = bgl.gamma(lambda A: np.asarray(y, float) * 0 + 1.0)  # loss_i = |y_i - 1| -> group mean of (1-y)
    exp_means = sorted(round(float(np.mean([1 - y[i] for i in rows_])), 12) for rows_ in exp)
    ctx.ev("moment_partitions_compared")
    ctx.check(len(gl) == len(part) and sorted(round(float(v), 12) for v in gl) == exp_means, "bounded_group_loss_groups_are_not_the_tuple_groups",
              got=sorted(float(v) for v in gl), expected=exp_means, wit=wit)
    eo = red.EqualizedOdds()
    eo.load_data(X, y, sensitive_features=table)
    n_pairs = len({(y[i], tuple(rows[i])) for i in range(n)})
    ctx.check(len([e for e in eo.index if e[0] == "+"]) == n_pairs, "equalized_odds_entries_differ_from_label_tuple_pairs",
              got=len([e for e in eo.index if e[0] == "+"]), expected=n_pairs, wit=wit)
    # --- end to end: GridSearch / ExponentiatedGradient fitted with the multi-column table; the recorded constraint values of
    #     every trained predictor must be those of the TRUE tuple groups (compared as multisets: group labels are merged strings)
    if rng.random() < 0.5 and len(set(y)) == 2 and n >= 6:
        from vf.monitors.learners import ExactLearner
        from vf.refs import moments as RM

        Xf = np.asarray([[i % 3] for i in range(n)], dtype=float)
        tg = [tuple(r) for r in rows]
        if rng.random() < 0.5:
            est = red.GridSearch(ExactLearner("cells"), red.DemographicParity(difference_bound=0.05), grid_size=4, grid_limit=2.0)
            est.fit(Xf, y, sensitive_features=table)
            cols_ = [(est.gammas_[c], est.predictors_[i]) for i, c in enumerate(est.gammas_.columns)]
        else:
            est = red.ExponentiatedGradient(ExactLearner("cells"), red.DemographicParity(difference_bound=0.05), eps=0.1, max_iter=4, nu=1e-4)
            est.fit(Xf, y, sensitive_features=table)
            lag_g = [est.constraints.gamma(lambda A, p_=p_: p_.predict(A)) for p_ in est.predictors_]
            cols_ = list(zip(lag_g, list(est.predictors_)))
        for gcol, pr in cols_:
            h = np.asarray(pr.predict(Xf), float)
            ref = RM.gamma("DemographicParity", y, tg, h, 1.0, None)
            exp_vals = sorted(round(v, 10) for (sgn, _, _), v in ref.items() if sgn == "+")
            got_vals = sorted(round(float(v), 10) for e, v in gcol.items() if e[0] == "+")
            ctx.ev("moment_partitions_compared")
            ctx.check(got_vals == exp_vals, "reduction_constraint_values_are_not_those_of_the_tuple_groups", estimator=type(est).__name__, got=got_vals,
                      expected=exp_vals, wit=wit)
    # --- MetricFrame's partition into non-empty intersectional groups
    rec = RecordingMetric("rec")
    mf = MetricFrame(metrics=rec, y_true=list(range(n)), y_pred=list(range(n)), sensitive_features=pd.DataFrame(rows, columns=names))
    mf_parts = []
    for v in mf.by_group:
        r = rec.invocation(v)
        if r is not None:
            mf_parts.append(sorted(r["y_true"]))
    ctx.ev("metricframe_partitions_compared")
    ctx.check(norm_partition(mf_parts) == exp, "metricframe_partition_differs_from_tuple_partition", got=norm_partition(mf_parts), expected=exp, wit=wit)
    ctx.check(norm_partition(got_parts) == norm_partition(mf_parts), "moment_partition_differs_from_metricframe_partition", wit=wit)


def run_thresholder(ctx, rng, ncols, tuples, specials):
    from fairlearn.postprocessing import ThresholdOptimizer

    tuples = tuples[:4]
    rows, y, s = [], [], []
    for t in tuples:
        m = int(rng.integers(2, 6))
        labs = [0, 1] + rng.integers(0, 2, size=m - 2).tolist() if m >= 2 else [0, 1]
        for lab in labs:
            rows.append(t)
            y.append(int(lab))
            s.append(float(rng.integers(0, 4)) + (0.7 * lab if rng.random() < 0.6 else 0.0))
    perm = rng.permutation(len(rows)).tolist()
    rows, y, s = [rows[i] for i in perm], [y[i] for i in perm], [s[i] for i in perm]
    n = len(rows)
    names = ["sa", "sb", "sc"][:ncols]
    table, kind = as_table(rng, rows, ncols, names)
    constraint, objective, flip, gs = TL.config_random(rng)
    part = tuple_partition(rows)
    ctx.mark(["thresholder", ncols, len(part), kind, specials, constraint], len(part) >= 2,
             sample={"rows": [list(r) for r in rows], "labels": y, "scores": s, "constraint": constraint, "container": kind})
    wit = {"rows": [list(r) for r in rows], "labels": y, "scores": s, "constraint": constraint, "objective": objective, "flip": flip,
           "grid_size": gs, "container": kind}
    X = np.asarray(s, float).reshape(-1, 1)
    to = ThresholdOptimizer(estimator=TL.ScoreColumn().fit(X), constraints=constraint, objective=objective, grid_size=gs, flip=flip,
                            prefit=True, predict_method="predict")
    to.fit(X, y, sensitive_features=table)
    keys = list(to.interpolated_thresholder_.interpolation_dict.keys())
    ctx.ev("thresholder_key_counts")
    ctx.check(len(keys) == len(part), "number_of_learned_rules_differs_from_number_of_distinct_tuples", rules=len(keys), tuples=len(part),
              keys=[repr(k) for k in keys], wit=wit)
    p_full = np.asarray(to._pmf_predict(X, sensitive_features=table))[:, 1]
    # parity on the TRUE tuple groups (a collision merges groups and breaks it)
    ya = np.asarray(y)
    metrics = ["false_positive_rate", "true_positive_rate"] if constraint == "equalized_odds" else [RT.SIMPLE[constraint]]
    for m in metrics:
        vals = {repr(t): RT.expected_metric(m, p_full[r], ya[r]) for t, r in part.items()}
        ctx.check(max(vals.values()) - min(vals.values()) <= 1e-9, "parity_broken_on_true_tuple_groups:" + m, per_group=vals, wit=wit)
    # predict time: every row must get the probability its (score, tuple) got in the full training table
    ref = {}
    for i in range(n):
        ref.setdefault((s[i], rows[i]), p_full[i])
    subsets = [rng.permutation(n).tolist()]
    for t, r in part.items():
        subsets.append(list(r))                                   # a single group
    subsets.append([i for i in range(n) if "," not in "".join(map(str, rows[i]))] or [0])   # table lacking the separator
    subsets.append([i for i in range(n) if "\\" not in "".join(map(str, rows[i]))] or [0])  # table lacking the escape character
    subsets.append([int(rng.integers(0, n))])
    for sub in subsets:
        sub_rows = [rows[i] for i in sub]
        tab, _ = as_table(rng, sub_rows, ncols, names)
        # held-out scores: reuse training scores so that the expected probability is known
        ps = np.asarray(to._pmf_predict(X[sub], sensitive_features=tab))[:, 1]
        ctx.ev("predict_time_rows_compared", len(sub))
        bad = [(sub[j], float(ps[j]), float(ref[(s[sub[j]], rows[sub[j]])])) for j in range(len(sub))
               if abs(ps[j] - ref[(s[sub[j]], rows[sub[j]])]) > 1e-12]
        ctx.check(not bad, "predict_time_rule_differs_from_fit_time_rule_of_the_same_tuple", mismatches=bad[:5],
                  sub_table=[list(r) for r in sub_rows][:8], wit=wit)
