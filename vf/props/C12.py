"""C12 Rows are matched by position, not by container type, index label or row order."""
from __future__ import annotations

import numpy as np
import pandas as pd

from vf import gen
from vf.common import close, rng_for
from vf.monitors.learners import ExactLearner
from vf.props import _momentlib as ML
from vf.props import _tolib as TL
from vf.refs import moments as RM

ID = "C12"
DECIDING = ["variant_results_compared", "permutation_results_compared", "relabelling_results_compared"]
BUDGET = {"quick": 240, "thorough": 1800}
ANCHORED = ["MetricFrame.__init__", "_validate_and_reformat_input", "_reformat_and_group_data", "_reformat_data_into_dict", "Moment.load_data",
            "_convert_to_ndarray_and_squeeze"]
RULE = ("one logical dataset per case (n<=30, 2..4 groups, optional control feature, positive weights); a baseline run on plain "
        "ndarrays and several variants in which every argument arrives in a different accepted container (list, ndarray (n,), "
        "ndarray (n,1), Series, single-column DataFrame with a named or default column, dict of arrays for features) carrying a "
        "DIFFERENT hostile pandas index (shuffled, offset, all-duplicate, string labels, reversed) so that any label alignment "
        "would pair wrong rows. APIs: MetricFrame (all public results), the 6 fairness metrics, the 5 parity moments + "
        "BoundedGroupLoss (index, gamma, signed_weights), ExponentiatedGradient (weights_, _pmf_predict), GridSearch (lambda_vecs_, "
        "objectives_, gammas_, best_idx_), ThresholdOptimizer (all 7 constraints, _pmf_predict). permute: joint row permutation "
        "leaves metric results unchanged; relabel: a bijection on group labels only renames index entries. distinct = distinct "
        "(api, n, #groups, control?, container/index combination); non-trivial = >=2 groups and at least one pandas container "
        "with a non-default index among the variant's arguments.")
ASSUMPTIONS = ["X only as ndarray or DataFrame (the documented types)", "deterministic exact base learners", "values compared with tolerance 1e-12"]
VEC = ["list", "ndarray", "col", "series", "df", "df_named"]
APIS = ["metricframe", "metricframe2", "fairness", "moments", "eg", "grid", "threshold", "permute", "relabel"]


def cases(tier, seed):
    k = 30 if tier == "quick" else 1000
    out = []
    for api in APIS:
        mult = {"metricframe": 3, "metricframe2": 2, "fairness": 2, "moments": 3, "threshold": 3, "eg": 1, "grid": 1, "permute": 2, "relabel": 2}[api]
        out += [(api, i) for i in range(k * mult)]
    return out


def wrap(rng, vals, kind, name="v"):
    n = len(vals)
    ik = gen.pick(rng, [k for k in gen.INDEX_KINDS if k != "range"])
    if kind == "list":
        return list(vals), False
    if kind == "ndarray":
        return np.asarray(vals), False
    if kind == "col":
        return np.asarray(vals).reshape(-1, 1), False
    if kind == "series":
        return pd.Series(list(vals), index=gen.hostile_index(n, ik, rng), name=gen.pick(rng, [None, name])), True
    if kind == "df":
        return pd.DataFrame({0: list(vals)}, index=gen.hostile_index(n, ik, rng)), True
    if kind == "df_named":
        return pd.DataFrame({name: list(vals)}, index=gen.hostile_index(n, ik, rng)), True
    if kind == "dict":
        return {name: np.asarray(vals)}, False
    if kind == "series_cat":  # a pandas categorical column (what read_csv(dtype="category") / astype("category") yields) with its own index
        return pd.Series(pd.Categorical(list(vals)), index=gen.hostile_index(n, ik, rng), name=gen.pick(rng, [None, name])), True
    if kind == "dict_series":  # a dict whose value is a pandas object carrying its own index labels
        return {name: pd.Series(list(vals), index=gen.hostile_index(n, ik, rng))}, True
    raise ValueError(kind)


def canon(obj):
    """Canonical, container-independent form of a public result: dict key->float or nested."""
    if isinstance(obj, pd.DataFrame):
        return {(_k(i), str(c)): _f(obj.loc[i, c]) for i in obj.index for c in obj.columns}
    if isinstance(obj, pd.Series):
        return {_k(i): _f(v) for i, v in obj.items()}
    if isinstance(obj, np.ndarray):
        return {i: _f(v) for i, v in enumerate(obj.ravel().tolist())}
    if isinstance(obj, (list, tuple)):
        return {i: _f(v) for i, v in enumerate(obj)}
    return {"": _f(obj)}


def _k(i):
    if isinstance(i, tuple):
        return tuple(_k(v) for v in i)
    if isinstance(i, np.generic):
        return i.item()
    return i


def _f(v):
    try:
        return float(v)
    except (TypeError, ValueError):
        return repr(v)


def same(a, b):
    if set(map(repr, a.keys())) != set(map(repr, b.keys())):
        return False, "keys differ: %s vs %s" % (sorted(map(repr, a.keys()))[:6], sorted(map(repr, b.keys()))[:6])
    bb = {repr(k): v for k, v in b.items()}
    for k, v in a.items():
        w = bb[repr(k)]
        if isinstance(v, float) and isinstance(w, float):
            if not close(v, w, 1e-12, 1e-14):
                return False, "value at %r: %r vs %r" % (k, v, w)
        elif v != w:
            return False, "value at %r: %r vs %r" % (k, v, w)
    return True, ""


def compare(ctx, base, var, what, wit, counter="variant_results_compared"):
    for name in base:
        ctx.ev(counter)
        if name not in var:
            ctx.violate("result_missing_in_variant:" + what, result=name, wit=wit)
            continue
        ok, why = same(base[name], var[name])
        ctx.check(ok, "result_changes_with_container_or_index:" + what if counter == "variant_results_compared" else what, result=name, difference=why, wit=wit)


# ------------------------------------------------------------------------------------------------- APIs

def api_metricframe(d, args):
    from fairlearn.metrics import MetricFrame, mean_prediction, selection_rate, true_positive_rate

    mf = MetricFrame(metrics={"sel": selection_rate, "tpr": true_positive_rate, "mp": mean_prediction}, y_true=args["y"], y_pred=args["p"],
                     sensitive_features=args["g"], control_features=args.get("c"),
                     sample_params={"sel": {"sample_weight": args["w"]}, "tpr": {"sample_weight": args["w"]}})
    out = {"by_group": canon(mf.by_group), "overall": canon(mf.overall), "group_min": canon(mf.group_min()), "group_max": canon(mf.group_max())}
    for m in ("between_groups", "to_overall"):
        out["difference:" + m] = canon(mf.difference(method=m))
        out["ratio:" + m] = canon(mf.ratio(method=m))
    return out


def api_metricframe2(d, args):
    """Two sensitive features: the cells are keyed by the value tuple in the order the caller listed the columns."""
    from fairlearn.metrics import MetricFrame, count, selection_rate

    mf = MetricFrame(metrics={"sel": selection_rate, "n": count}, y_true=args["y"], y_pred=args["p"], sensitive_features=args["g2"],
                     sample_params={"sel": {"sample_weight": args["w"]}})
    bg = mf.by_group
    if args.get("_drop_last_level"):
        bg = bg.droplevel(-1)  # the constant third feature of the dict3_mixed container
    return {"by_group": canon(bg), "overall": canon(mf.overall), "difference": canon(mf.difference()), "group_min": canon(mf.group_min())}


def api_fairness(d, args):
    import fairlearn.metrics as M

    out = {}
    for fn in ("demographic_parity_difference", "demographic_parity_ratio", "equal_opportunity_difference", "equal_opportunity_ratio",
               "equalized_odds_difference", "equalized_odds_ratio", "true_negative_rate_difference", "accuracy_score_group_min"):
        for m in ("between_groups", "to_overall"):
            kw = {} if fn.endswith("group_min") else {"method": m}
            out[fn + ":" + m] = canon(getattr(M, fn)(args["y"], args["p"], sensitive_features=args["g"], sample_weight=args["w"], **kw))
    # the two base metrics that take every container themselves (through utils/_input_manipulations.py) called directly, with no
    # MetricFrame in between that would hand them fresh arrays.  (The four rates pass y to scikit-learn as given: 1-D only, not in scope.)
    for fn in ("selection_rate", "mean_prediction"):
        out["base:" + fn] = canon(getattr(M, fn)(args["y"], args["p"], sample_weight=args["w"]))
    return out


def api_moments(d, args):
    import fairlearn.reductions as red

    out = {}
    n = d["n"]
    h = d["h"]
    reuse = args.get("_moment_objects")  # the same moment objects loaded again (as a second fit of a reduction does)
    for kind in RM.PARITY:
        if reuse is not None and kind in reuse:
            m = reuse[kind]
        else:
            m = getattr(red, kind)(difference_bound=0.05) if kind != "EqualizedOdds" else getattr(red, kind)(ratio_bound=0.8, ratio_bound_slack=0.02)
            if reuse is not None:
                reuse[kind] = m
        kw = {"sensitive_features": args["g"]}
        if args.get("c") is not None:
            kw["control_features"] = args["c"]
        m.load_data(args["X"], args["y"], **kw)
        out[kind + ":index"] = {i: repr(e) for i, e in enumerate(sorted(map(repr, m.index)))}
        gm = m.gamma(ML.FixedPredictor(h, args.get("_pred_container", "ndarray"), args.get("_pred_hostile", "reversed")))
        out[kind + ":gamma"] = canon(gm)
        lam = pd.Series(np.linspace(0.1, 2.0, len(m.index)), index=sorted(m.index, key=repr))
        out[kind + ":signed_weights"] = canon(np.asarray(m.signed_weights(lam.reindex(m.index)), float))
        out[kind + ":bound"] = canon(m.bound())
    bgl = red.BoundedGroupLoss(red.SquareLoss(0, 1), upper_bound=0.1)
    bgl.load_data(args["X"], args["y"], sensitive_features=args["g"])
    out["bgl:gamma"] = canon(bgl.gamma(ML.FixedPredictor(h, args.get("_pred_container", "ndarray"), args.get("_pred_hostile", "reversed"))))
    return out


def api_eg(d, args):
    import fairlearn.reductions as red

    kind = d["kind"]
    eg = red.ExponentiatedGradient(ExactLearner("cells", output=args.get("_learner_output", "ndarray")), getattr(red, kind)(difference_bound=0.05),
                                   eps=d["eg_eps"], max_iter=d["eg_max_iter"], nu=d["eg_nu"], run_linprog_step=d["eg_lp"])
    kw = {"sensitive_features": args["g"]}
    if args.get("c") is not None:
        kw["control_features"] = args["c"]
    eg.fit(args["X"], args["y"], **kw)
    return {"weights_": canon(eg.weights_), "pmf": canon(np.asarray(eg._pmf_predict(args["X"]))), "best_gap_": canon(eg.best_gap_),
            "last_iter_": canon(eg.last_iter_), "best_iter_": canon(eg.best_iter_), "n_oracle_calls_": canon(eg.n_oracle_calls_),
            "convergence_threshold_nu_in_effect": canon(eg.nu),  # data-derived when nu=None was requested
            "lambda_vecs_": {(i, j): float(v) for j, col in enumerate(eg.lambda_vecs_.columns)
                             for i, v in enumerate(eg.lambda_vecs_[col].reindex(sorted(eg.lambda_vecs_.index, key=repr)))}}


def api_grid(d, args):
    import fairlearn.reductions as red

    kind = d["kind"]
    gs = red.GridSearch(ExactLearner("cells", output=args.get("_learner_output", "ndarray")), getattr(red, kind)(difference_bound=0.05), grid_size=7, grid_limit=2.0)
    kw = {"sensitive_features": args["g"]}
    if args.get("c") is not None:
        kw["control_features"] = args["c"]
    gs.fit(args["X"], args["y"], **kw)
    order = sorted(gs.lambda_vecs_.index, key=repr)
    return {"lambda_vecs_": {(i, j): float(v) for j, col in enumerate(gs.lambda_vecs_.columns) for i, v in enumerate(gs.lambda_vecs_[col].reindex(order))},
            "gammas_": {(i, j): float(v) for j, col in enumerate(gs.gammas_.columns) for i, v in enumerate(gs.gammas_[col].reindex(order))},
            "objectives_": canon(list(gs.objectives_)), "best_idx_": canon(gs.best_idx_), "predict": canon(np.asarray(gs.predict(args["X"])))}


def api_threshold(d, args):
    from fairlearn.postprocessing import ThresholdOptimizer

    out = {}
    for constraint in d["constraints"]:
        obj = "accuracy_score"
        to = ThresholdOptimizer(estimator=TL.ScoreColumn().fit(d["X"]), constraints=constraint, objective=obj, grid_size=d["grid_size"], flip=d["flip"],
                                prefit=True, predict_method="predict")
        to.fit(args["X"], args["y"], sensitive_features=args["g"])
        out[constraint + ":pmf"] = canon(np.asarray(to._pmf_predict(args["X"], sensitive_features=args["g"])))
        out[constraint + ":predict"] = canon(np.asarray(to.predict(args["X"], sensitive_features=args["g"], random_state=5)))
    return out


API = {"metricframe": api_metricframe, "metricframe2": api_metricframe2, "fairness": api_fairness, "moments": api_moments, "eg": api_eg, "grid": api_grid, "threshold": api_threshold}
# accepted container kinds per argument and API
KINDS = {
    "metricframe": {"y": VEC, "p": VEC, "w": ["list", "ndarray", "series"], "g": ["list", "ndarray", "series", "series_cat", "df_named", "dict", "dict_series", "col"],
                    "c": ["list", "ndarray", "series", "series_cat", "df_named", "dict", "dict_series"]},
    "fairness": {"y": VEC, "p": VEC, "w": ["list", "ndarray", "series"], "g": ["list", "ndarray", "series", "series_cat", "df_named", "dict", "dict_series"]},
    "metricframe2": {"y": VEC, "p": VEC, "w": ["list", "ndarray", "series"], "g2": ["ndarray2d", "df2", "dict2", "dict2_series", "dict2_series", "dict3_mixed"]},
    "moments": {"y": VEC, "g": ["list", "ndarray", "series", "series_cat", "df", "df_named"], "c": ["list", "ndarray", "series", "series_cat", "df", "df_named"], "X": ["ndarray", "Xdf"]},
    "eg": {"y": VEC, "g": ["list", "ndarray", "series", "df", "df_named"], "c": ["list", "ndarray", "series", "df_named"], "X": ["ndarray", "Xdf"]},
    "grid": {"y": VEC, "g": ["list", "ndarray", "series", "df", "df_named"], "c": ["list", "ndarray", "series", "df_named"], "X": ["ndarray", "Xdf"]},
    "threshold": {"y": VEC, "g": ["list", "ndarray", "series", "series_cat", "df", "df_named"], "X": ["ndarray", "Xdf"]},
}


def make_data(rng, api):
    n = int(rng.integers(6, 31))
    k = int(rng.integers(2, 5))
    names = gen.pick(rng, [["a", "b", "c", "d"], [3, 1, 2, 0], ["10", "9", "z", "1"]])
    gi = gen.skewed_labels(rng, n, k).tolist()
    if len(set(gi)) < 2:
        gi[0] = (gi[0] + 1) % k
    y = rng.integers(0, 2, size=n).tolist()
    for a in sorted(set(gi)):  # both labels in every occurring group (ThresholdOptimizer precondition) - done LAST
        labs = {y[i] for i in range(len(y)) if gi[i] == a}
        for lab in (0, 1):
            if lab not in labs:
                gi.append(a)
                y.append(lab)
    n = len(y)
    g = [names[i] for i in gi]
    d = {"n": n, "y": y, "g": g, "p": rng.integers(0, 2, size=n).tolist(), "w": gen.positive_weights(rng, n, "real").round(3).tolist(),
         "c": ([["u", "v"][i] for i in rng.integers(0, 2, size=n)] if (api in ("metricframe", "moments", "eg", "grid") and rng.random() < 0.5) else None),
         "X": np.column_stack([rng.integers(0, 4, size=n).astype(float), rng.normal(size=n).round(3)]), "h": rng.random(n).round(3),
         "kind": gen.pick(rng, RM.PARITY), "constraints": [TL.CONSTRAINTS[i] for i in rng.permutation(len(TL.CONSTRAINTS))[:3]] + ["equalized_odds"],
         "grid_size": int(gen.pick(rng, [5, 10, 100])), "flip": bool(rng.random() < 0.5),
         # EG: the default nu=None (derived from the data) and runs without the LP step, where the stopping iteration is sensitive
         "g_second": [["p", "q"][i] for i in rng.integers(0, 2, size=n)], "g2": True, "g2_names": gen.pick(rng, [["sex", "race"], ["zeta", "alpha"], ["b", "a"]]),
         "eg_nu": gen.pick(rng, [1e-6, None, None]), "eg_lp": bool(rng.random() < 0.5), "eg_eps": float(gen.pick(rng, [0.1, 0.05])),
         "eg_max_iter": int(gen.pick(rng, [6, 12, 25]))}
    if api == "threshold":
        d["X"][:, 0] = np.round(d["X"][:, 0] + np.asarray(y) * rng.random(n), 2)
    return d


def build_args(rng, api, d, baseline):
    args, kinds, hostile = {}, {}, False
    for arg, allowed in KINDS[api].items():
        if d.get(arg) is None:
            args[arg] = None
            continue
        if arg == "X":
            kind = "ndarray" if baseline else gen.pick(rng, allowed)
            if kind == "ndarray":
                args[arg] = d["X"].copy()
            else:
                ik = gen.pick(rng, [k for k in gen.INDEX_KINDS if k != "range"])
                args[arg] = pd.DataFrame(d["X"], columns=["f0", "f1"], index=gen.hostile_index(d["n"], ik, rng))
                hostile = True
            kinds[arg] = kind
            continue
        if arg == "g2":
            kind = "ndarray2d" if baseline else gen.pick(rng, allowed)
            cols = [d["g"], d["g_second"]]
            nm = d["g2_names"]   # column names in the caller's order, deliberately not alphabetical
            if kind == "ndarray2d":
                args[arg] = np.column_stack([np.asarray(c_, dtype=object) for c_ in cols])
            elif kind == "df2":
                args[arg] = pd.DataFrame({nm[0]: cols[0], nm[1]: cols[1]}, index=gen.hostile_index(d["n"], gen.pick(rng, [k for k in gen.INDEX_KINDS if k != "range"]), rng))
                hostile = True
            elif kind == "dict3_mixed":
                # pandas and non-pandas values in one dict: two Series with different index labels plus a plain list (a constant third
                # feature, so the groups - and, after dropping that level, the results - are those of the two-column baseline)
                iks = [gen.pick(rng, ["shuffled", "reversed"]), gen.pick(rng, ["shuffled", "range"])]
                args[arg] = {nm[j]: pd.Series(list(cols[j]), index=gen.hostile_index(d["n"], iks[j], rng)) for j in range(2)}
                args[arg]["zz_const"] = ["k"] * d["n"] if rng.random() < 0.5 else np.asarray(["k"] * d["n"])
                args["_drop_last_level"] = True
                hostile = True
            elif kind == "dict2_series":
                # two pandas columns that carry DIFFERENT index labels (each a permutation of 0..n-1, an offset range or strings)
                iks = [gen.pick(rng, ["shuffled", "reversed", "offset", "str", "range"]) for _ in range(2)]
                if iks[0] == iks[1] == "range":
                    iks[1] = "shuffled"
                args[arg] = {nm[j]: pd.Series(list(cols[j]), index=gen.hostile_index(d["n"], iks[j], rng)) for j in range(2)}
                hostile = True
            else:
                args[arg] = {nm[0]: np.asarray(cols[0]), nm[1]: list(cols[1])}
            kinds[arg] = kind
            continue
        kind = "ndarray" if baseline else gen.pick(rng, allowed)
        args[arg], h = wrap(rng, d[arg], kind, name={"g": "grp", "c": "ctl", "y": "lab", "p": "pred", "w": "wt"}[arg])
        hostile |= h
        kinds[arg] = kind
    if api in ("eg", "grid") and not baseline and isinstance(args.get("X"), pd.DataFrame):
        # a pandas-aware base estimator: predict() returns a Series indexed like the (hostile) input frame
        args["_learner_output"] = gen.pick(rng, ["ndarray", "series_like_X", "series_like_X"])
        kinds["estimator_output"] = args["_learner_output"]
    if api == "moments" and not baseline:
        # what the predictor callable returns: ndarray, (n,1) array, or a pandas Series with a non-default index
        args["_pred_container"] = gen.pick(rng, ["ndarray", "col", "series", "series_hostile", "series_hostile"])
        args["_pred_hostile"] = gen.pick(rng, ["reversed", "rolled"])
        kinds["predictor_output"] = args["_pred_container"]
        hostile |= args["_pred_container"] == "series_hostile"
    return args, kinds, hostile


def run_case(cls, key, seed, ctx):
    rng = rng_for(seed, ID, cls, key)
    if cls == "permute":
        return run_permute(ctx, rng)
    if cls == "relabel":
        return run_relabel(ctx, rng)
    d = make_data(rng, cls)
    base_args, _, _ = build_args(rng, cls, d, True)
    base = API[cls](d, base_args)
    nvar = 3 if cls in ("eg", "grid") else 4
    any_hostile = False
    sigs = []
    for v in range(nvar):
        args, kinds, hostile = build_args(rng, cls, d, False)
        any_hostile |= hostile
        sigs.append(sorted(kinds.items()))
        wit = {"api": cls, "containers": kinds, "y": d["y"], "groups": d["g"], "control": d["c"], "n": d["n"],
               "index_labels": {a: (list(map(str, v_.index[:8])) if isinstance(v_, (pd.Series, pd.DataFrame)) else None) for a, v_ in args.items() if not a.startswith("_")}}
        var = API[cls](d, args)
        compare(ctx, base, var, cls, wit)
    ctx.mark([cls, d["n"], len(set(d["g"])), d["c"] is not None, sigs], len(set(d["g"])) >= 2 and any_hostile,
             sample={"api": cls, "y": d["y"], "groups": d["g"], "control": d["c"], "variant_containers": sigs[0]})


def run_permute(ctx, rng):
    api = gen.pick(rng, ["metricframe", "fairness", "moments"])
    d = make_data(rng, api)
    args, _, _ = build_args(rng, api, d, True)
    shared = {} if (api == "moments" and rng.random() < 0.6) else None
    if api == "moments":
        args["_moment_objects"] = shared
    base = API[api](d, args)
    perm = rng.permutation(d["n"])
    d2 = dict(d)
    for k in ("y", "g", "p", "w", "c"):
        if d.get(k) is not None:
            d2[k] = [d[k][i] for i in perm]
    d2["X"], d2["h"] = d["X"][perm], d["h"][perm]
    args2, kinds, _ = build_args(rng, api, d2, False)
    if api == "moments":
        args2["_moment_objects"] = shared
        kinds["moment_objects"] = "the same objects loaded a second time" if shared is not None else "fresh"
    var = API[api](d2, args2)
    if api == "moments":  # the per-row weights move with the rows: compare them in the original row order
        inv = np.argsort(perm)
        for k_ in list(var):
            if k_.endswith(":signed_weights"):
                var[k_] = {i: var[k_][int(inv[i])] for i in range(d["n"])}
    wit = {"api": api, "permutation": perm.tolist(), "y": d["y"], "groups": d["g"], "control": d["c"], "containers": kinds}
    ctx.mark(["permute", api, d["n"], len(set(d["g"]))], len(set(d["g"])) >= 2, sample=wit)
    compare(ctx, base, var, "metric_result_changes_under_joint_row_permutation:" + api, wit, counter="permutation_results_compared")


def run_relabel(ctx, rng):
    from fairlearn.metrics import MetricFrame, selection_rate, true_positive_rate

    d = make_data(rng, "metricframe")
    labels = sorted(set(d["g"]), key=repr)
    new = ["L%d" % i for i in rng.permutation(len(labels))]
    bij = dict(zip(labels, new))

    def frame(g):
        return MetricFrame(metrics={"sel": selection_rate, "tpr": true_positive_rate}, y_true=d["y"], y_pred=d["p"], sensitive_features=g,
                           control_features=d["c"], sample_params={"sel": {"sample_weight": d["w"]}})
    a, b = frame(d["g"]), frame([bij[v] for v in d["g"]])
    wit = {"bijection": {repr(k): v for k, v in bij.items()}, "y": d["y"], "groups": d["g"], "control": d["c"]}
    ctx.mark(["relabel", d["n"], len(labels), d["c"] is not None], len(labels) >= 2, sample=wit)

    def ren_idx(ik):
        # the sensitive feature is the last index level (control levels come first)
        if isinstance(ik, tuple):
            return tuple(list(ik[:-1]) + [bij.get(ik[-1], ik[-1])])
        return bij.get(ik, ik)
    ca = {(ren_idx(k[0]), k[1]): v for k, v in canon(a.by_group).items()}  # DataFrame cells are keyed (index key, column)
    ctx.ev("relabelling_results_compared")
    ok, why = same(ca, canon(b.by_group))
    ctx.check(ok, "relabelling_groups_does_more_than_rename_index_entries:by_group", difference=why, wit=wit)
    # the same bijection applied to the constraint moments: index entries are renamed, every value stays with its row / entry
    import fairlearn.reductions as red

    gb = [bij[v] for v in d["g"]]
    h = d["h"]
    for kind in ("DemographicParity", "EqualizedOdds", "BoundedGroupLoss"):
        def mk():
            return red.BoundedGroupLoss(red.SquareLoss(0, 1), upper_bound=0.1) if kind == "BoundedGroupLoss" else getattr(red, kind)(difference_bound=0.05)
        ma, mb = mk(), mk()
        ma.load_data(d["X"], d["y"], sensitive_features=d["g"])
        mb.load_data(d["X"], d["y"], sensitive_features=gb)

        def ren_entry(e):
            if isinstance(e, tuple):
                return tuple(list(e[:-1]) + [bij.get(e[-1], e[-1])])
            return bij.get(e, e)
        ga = {repr(ren_entry(e)): float(v) for e, v in ma.gamma(ML.FixedPredictor(h)).items()}
        gbv = {repr(e): float(v) for e, v in mb.gamma(ML.FixedPredictor(h)).items()}
        ctx.ev("relabelling_results_compared")
        ok, why = same(ga, gbv)
        ctx.check(ok, "relabelling_groups_does_more_than_rename_moment_index_entries:" + kind, difference=why, wit=wit)
        lam_a = pd.Series(np.linspace(0.2, 1.7, len(ma.index)), index=sorted(ma.index, key=lambda e: repr(ren_entry(e))))
        lam_b = pd.Series(lam_a.to_numpy(), index=[ren_entry(e) for e in lam_a.index])
        wa = np.asarray(ma.signed_weights(lam_a.reindex(ma.index)), float)
        wb = np.asarray(mb.signed_weights(lam_b.reindex(mb.index)), float)
        ctx.ev("relabelling_results_compared")
        ctx.check(wa.shape == wb.shape and bool(np.allclose(wa, wb, rtol=1e-12, atol=1e-14)), "relabelling_groups_changes_signed_weights:" + kind,
                  before=wa.tolist(), after=wb.tolist(), wit=wit)
    for nm, fa, fb in (("overall", a.overall, b.overall), ("difference", a.difference(), b.difference()), ("ratio", a.ratio(method="to_overall"), b.ratio(method="to_overall")),
                       ("group_min", a.group_min(), b.group_min())):
        ctx.ev("relabelling_results_compared")
        ok, why = same(canon(fa), canon(fb))
        ctx.check(ok, "relabelling_groups_changes_aggregate:" + nm, difference=why, wit=wit)
