"""C07 Reduction identity: sample re-weighting is the exact gradient of the Lagrangian."""
from __future__ import annotations

import numpy as np
import pandas as pd
from sklearn.dummy import DummyClassifier

from vf import gen
from vf.common import close, rng_for
from vf.monitors.learners import ExactLearner, ExactRegressor
from vf.props import _momentlib as ML
from vf.refs import moments as RM

ID = "C07"
DECIDING = ["basis_identities_checked", "affinity_checks", "objective_identities_checked", "projection_checks",
            "learner_fit_records_compared"]
BUDGET = {"quick": 200, "thorough": 1800}
ANCHORED = ["UtilityParity.signed_weights", "UtilityParity.project_lambda", "ErrorRate.signed_weights",
            "ConditionalLossMoment.signed_weights", "_Lagrangian._call_oracle", "GridSearch.fit"]
RULE = ("identity: datasets/moments/bounds as in C06 (n<=25, control features, r<1): for every unit multiplier e_j and every unit "
        "predictor 1[i=k] the identity gamma_j(1_k)-gamma_j(0) = -w_k(e_j)/n is checked (n+|index|+1 calls cover the whole "
        "basis; by linearity this covers every lambda>=0 and every soft predictor), plus affinity of gamma in h and linearity "
        "of signed_weights in lambda on random combinations, the objective's weights vs cost-weighted error differences, the "
        "loss-moment identity for BoundedGroupLoss (groups first appearing in arbitrary order), in a third of the cases on a moment object "
        "that was loaded with other data of the same size and queried before, and project_lambda (non-negative, Lagrangian never lower, on basis and random "
        "predictors); custom_utility: UtilityParity loaded with caller-supplied utilities (scaled, sign-flipped, per-row) and events, checked against the definition and the same identity; the mean-loss objective of BoundedGroupLoss with multipliers != 1. history: ExponentiatedGradient and GridSearch are fitted with a recording exact learner; every stored "
        "predictor's recorded (y, sample_weight) is compared with 1[w>0] and |w| (up to scale) for w recomputed from the "
        "multiplier vector recorded for it. distinct = distinct (moment, bound, n, #groups, #strata, #index entries); "
        "non-trivial = >=2 groups and >=4 index entries.")
ASSUMPTIONS = ["binary labels for classification moments", "reference weights from refs/moments.py (independent of fairlearn)"]


def cases(tier, seed):
    k = 220 if tier == "quick" else 6000
    return ([("identity", i) for i in range(k)] + [("loss_identity", i) for i in range(k // 3)] + [("history", i) for i in range(k // 2)]
            + [("custom_utility", i) for i in range(k // 3)])


def run_case(cls, key, seed, ctx):
    rng = rng_for(seed, ID, cls, key)
    if cls == "identity":
        return run_identity(ctx, rng)
    if cls == "loss_identity":
        return run_loss_identity(ctx, rng)
    if cls == "custom_utility":
        return run_custom_utility(ctx, rng)
    return run_history(ctx, rng)


def run_identity(ctx, rng):
    import fairlearn.reductions as red

    kind = RM.PARITY[int(rng.integers(0, 5))]
    bound = ML.BOUNDS[int(rng.integers(0, len(ML.BOUNDS)))]
    ds = ML.make_dataset(rng, nmin=4, nmax=25)
    moment, ratio, eps = ML.make_moment(kind, bound)
    reloaded = bool(rng.random() < 0.35)
    if reloaded:
        # the moment object was used on other data of the same size before (refit of a reduction / shared constraints object)
        ds0 = ML.make_dataset(rng, nmin=ds.n, nmax=ds.n, control=ds.c is not None)
        X0, y0, g0, c0 = ML.wrap_inputs(rng, ds0)
        ML.load(moment, X0, y0, g0, c0)
        moment.gamma(ML.FixedPredictor(rng.random(ds0.n)))
        moment.signed_weights(pd.Series(1.0, index=moment.index))
        moment.project_lambda(pd.Series(1.0, index=moment.index))
    X, y, g, c = ML.wrap_inputs(rng, ds)
    ML.load(moment, X, y, g, c)
    n = ds.n
    idx = list(moment.index)
    ctx.mark([kind, list(bound), n, len(set(ds.g)), None if ds.c is None else len(set(ds.c)), len(idx), reloaded], len(set(ds.g)) >= 2 and len(idx) >= 4,
             sample={"moment": kind, "bound": list(bound), "y": ds.y, "groups": ds.g, "control": ds.c})
    wit = {"moment": kind, "bound": list(bound), "y": ds.y, "groups": ds.g, "control": ds.c, "moment_loaded_with_other_data_before": reloaded}
    mapping, problems = ML.align_index(moment, kind, ds, ratio, rng)
    if problems:
        ctx.violate("index_does_not_match_definition:" + problems[0][0], detail=problems[0][1], wit=wit)
        return
    g0 = moment.gamma(ML.FixedPredictor(np.zeros(n)))
    G = np.zeros((len(idx), n))
    for k in range(n):
        e = np.zeros(n)
        e[k] = 1.0
        gk = moment.gamma(ML.FixedPredictor(e))
        G[:, k] = np.asarray([gk[ent] - g0[ent] for ent in idx], dtype=float)
    for j, ent in enumerate(idx):
        lam = ML.lam_series(moment, {ent: 1.0})
        w = np.asarray(moment.signed_weights(lam), dtype=float)
        ctx.ev("basis_identities_checked", n)
        if not ctx.check(w.shape == (n,), "signed_weights_wrong_shape", got=list(w.shape), wit=wit):
            return
        lhs, rhs = G[j, :], -w / n
        ok = bool(np.allclose(lhs, rhs, rtol=1e-9, atol=1e-12))
        ctx.check(ok, "signed_weights_is_not_the_gradient_of_lambda_gamma", entry=repr(ent), gamma_differences=lhs.tolist(),
                  minus_weights_over_n=rhs.tolist(), wit=wit)
        refw = RM.signed_weights(kind, ds.y, ds.g, {mapping[ent]: 1.0}, ratio, ds.c)
        ctx.check(bool(np.allclose(w, refw, rtol=1e-9, atol=1e-10)), "signed_weights_differs_from_definition", entry=repr(ent), got=w.tolist(),
                  expected=refw.tolist(), wit=wit)
    # affinity in h, linearity in lambda
    h1, h2 = rng.random(n), rng.random(n)
    a = float(rng.random())
    # half of the time the predictors are closures over stored prediction vectors (`moment.gamma(lambda X: y_pred)`): the same
    # float64 array objects are handed to gamma and afterwards used for the right-hand side, as a caller would
    pcont = "same_array" if rng.random() < 0.5 else "ndarray"
    h1_before, h2_before = h1.copy(), h2.copy()
    g1, g2 = moment.gamma(ML.FixedPredictor(h1, pcont)), moment.gamma(ML.FixedPredictor(h2, pcont))
    ctx.check(bool(np.array_equal(h1, h1_before) and np.array_equal(h2, h2_before)), "gamma_overwrites_the_prediction_vector_it_was_given",
              before=h1_before[:6].tolist(), after=h1[:6].tolist(), wit=wit)
    ga = moment.gamma(ML.FixedPredictor(a * h1 + (1 - a) * h2))
    ctx.ev("affinity_checks")
    ctx.check(bool(np.allclose(np.asarray(ga, float), a * np.asarray(g1, float) + (1 - a) * np.asarray(g2, float), rtol=1e-9, atol=1e-12)),
              "gamma_is_not_affine_in_the_predictor", wit=wit)
    l1 = pd.Series(rng.random(len(idx)) * 3, index=moment.index)
    l2 = pd.Series(rng.random(len(idx)) * (rng.random(len(idx)) < 0.5), index=moment.index)
    cc = float(rng.uniform(0.1, 4))
    s12 = np.asarray(moment.signed_weights(l1 + cc * l2), float)
    ctx.ev("affinity_checks")
    ctx.check(bool(np.allclose(s12, np.asarray(moment.signed_weights(l1), float) + cc * np.asarray(moment.signed_weights(l2), float),
                               rtol=1e-9, atol=1e-10)), "signed_weights_is_not_linear_in_lambda", wit=wit)
    # full identity on a random (lambda, h, h') - redundant by linearity, kept as an end-to-end check
    lhs = float(np.dot(l1, np.asarray(g1, float) - np.asarray(g2, float)))
    rhs = float(-np.dot(np.asarray(moment.signed_weights(l1), float), h1 - h2) / n)
    ctx.check(close(lhs, rhs, 1e-9, 1e-11), "lambda_gamma_difference_differs_from_weighted_prediction_difference", lhs=lhs, rhs=rhs, wit=wit)
    # objective
    costs = gen.pick(rng, [None, {"fp": 0.3, "fn": 2.0}, {"fp": 1.5, "fn": 0.0}])
    obj = red.ErrorRate() if costs is None else red.ErrorRate(costs=costs)
    obj.load_data(X, y, sensitive_features=g)
    fp, fn = (1.0, 1.0) if costs is None else (costs["fp"], costs["fn"])
    wo = np.asarray(obj.signed_weights(), float)
    e1, e2 = obj.gamma(ML.FixedPredictor(h1)).iloc[0], obj.gamma(ML.FixedPredictor(h2)).iloc[0]
    ctx.ev("objective_identities_checked")
    # single-precision labels make the weights single precision: that is rounding, not a wrong gradient
    otol = 1e-5 if str(getattr(y, "dtype", "")) == "float32" else 1e-9
    ctx.check(close(e1 - e2, -np.dot(wo, h1 - h2) / n, otol, 1e-12 if otol < 1e-6 else 1e-7), "objective_weights_are_not_the_gradient_of_the_error", costs=costs,
              error_difference=float(e1 - e2), weighted=float(-np.dot(wo, h1 - h2) / n), wit=wit)
    ctx.check(bool(np.allclose(wo, RM.error_weights(ds.y, fp, fn), atol=1e-12 if otol < 1e-6 else 1e-6)), "objective_weights_differ_from_definition", costs=costs,
              got=wo.tolist(), wit=wit)
    lam_all = pd.Series([2.5], index=["all"])
    ctx.check(bool(np.allclose(np.asarray(obj.signed_weights(lam_all), float), 2.5 * wo, atol=1e-12 if otol < 1e-6 else 1e-6)), "objective_weights_not_scaled_by_lambda", wit=wit)
    # projection
    for trial in range(3):
        lam = pd.Series(rng.random(len(idx)) * 4 * (rng.random(len(idx)) < 0.7), index=moment.index)
        if trial > 0:
            # a multiplier vector is addressed by constraint id, not by storage order
            lam = lam.iloc[rng.permutation(len(idx))] if trial == 1 else lam.sort_index(level=[1, 2])
        pl = moment.project_lambda(lam.copy())
        ctx.ev("projection_checks")
        if not ctx.check(isinstance(pl, pd.Series) and len(pl) == len(idx), "project_lambda_wrong_shape", wit=wit):
            break
        pl = pl.reindex(moment.index)
        ctx.check(bool((np.asarray(pl, float) >= 0).all()), "project_lambda_negative_entry", got=np.asarray(pl, float).tolist(), lam=lam.tolist(), wit=wit)
        lam = lam.reindex(moment.index)
        b = np.asarray(moment.bound().reindex(moment.index), float)
        for h in [np.zeros(n), np.ones(n), h1, (rng.random(n) < 0.5).astype(float)] + [np.eye(n)[int(rng.integers(0, n))]]:
            gm = np.asarray(moment.gamma(ML.FixedPredictor(h)).reindex(moment.index), float)
            L0 = float(np.dot(np.asarray(lam, float), gm - b))
            L1 = float(np.dot(np.asarray(pl, float), gm - b))
            ctx.check(L1 >= L0 - 1e-10, "project_lambda_lowers_the_lagrangian", original=L0, projected=L1, lam=lam.tolist(), projected_lam=pl.tolist(), wit=wit)
        refp = RM.project_lambda({mapping[e]: float(lam[e]) for e in idx}, ratio)
        ctx.check(all(close(pl[e], refp.get(mapping[e], 0.0), 1e-10, 1e-12) for e in idx), "project_lambda_differs_from_definition",
                  got=pl.tolist(), lam=lam.tolist(), ratio=ratio, wit=wit)


def run_loss_identity(ctx, rng):
    import fairlearn.reductions as red

    ds = ML.make_dataset(rng, nmin=4, nmax=25, control=False)
    lname = gen.pick(rng, ["square", "abs"])
    lo, hi = gen.pick(rng, [(0.0, 1.0), (-1.0, 2.0), (0.2, 0.6)])
    loss = red.SquareLoss(lo, hi) if lname == "square" else red.AbsoluteLoss(lo, hi)
    yv = np.round(rng.uniform(lo - 0.3, hi + 0.3, size=ds.n), 3).tolist()
    m = red.BoundedGroupLoss(loss, upper_bound=0.1)
    m.load_data(ds.X, gen.as_vec(yv, gen.pick(rng, ["list", "ndarray", "series"]), rng), sensitive_features=gen.as_vec(ds.g, gen.pick(rng, ["list", "ndarray", "series"]), rng))
    n = ds.n
    groups = list(m.index)
    ctx.mark(["bgl", lname, lo, hi, n, len(groups)], len(groups) >= 2, sample={"y": yv, "groups": ds.g, "loss": lname, "clip": [lo, hi]})
    wit = {"y": yv, "groups": ds.g, "loss": lname, "clip": [lo, hi]}
    h = np.round(rng.uniform(lo - 0.5, hi + 0.5, size=n), 3)
    lam = pd.Series(rng.random(len(groups)) * 3, index=m.index)
    gm = m.gamma(ML.FixedPredictor(h))
    w = np.asarray(m.signed_weights(lam), float)
    lv = RM.loss_values(lname, yv, h, lo, hi)
    ctx.ev("objective_identities_checked")
    ctx.check(close(float(np.dot(lam, gm.reindex(m.index))), float(np.dot(w, lv) / n), 1e-9, 1e-12), "loss_moment_identity_broken",
              lambda_gamma=float(np.dot(lam, gm.reindex(m.index))), weighted_loss=float(np.dot(w, lv) / n), lam=lam.tolist(), wit=wit)
    pg = {a: sum(1 for v in ds.g if v == a) / n for a in set(ds.g)}
    refw = np.array([float(lam[a]) / pg[a] for a in ds.g])
    ctx.check(bool(np.allclose(w, refw, rtol=1e-10)), "group_loss_weights_are_not_lambda_over_group_probability", got=w.tolist(), expected=refw.tolist(), wit=wit)
    w1 = np.asarray(m.signed_weights(), float)
    ctx.check(bool(np.allclose(w1, 1.0)), "default_loss_weights_not_one", got=w1.tolist())
    pl = m.project_lambda(lam)
    ctx.ev("projection_checks")
    ctx.check(bool(np.allclose(np.asarray(pl, float), np.asarray(lam, float))), "project_lambda_changes_loss_multipliers", wit=wit)
    # the matching objective (BoundedGroupLoss.default_objective(): the mean loss over all rows) obeys the same identity for any multiplier
    obj = m.default_objective()
    obj.load_data(ds.X, yv, sensitive_features=ds.g)
    for c_ in (1.0, float(gen.pick(rng, [3.0, 0.5, 0.0, 2.25]))):
        lam_o = pd.Series([c_], index=obj.index)
        go = obj.gamma(ML.FixedPredictor(h))
        wo = np.asarray(obj.signed_weights(lam_o), float)
        ctx.ev("objective_identities_checked")
        ctx.check(wo.shape == (n,) and close(float(np.dot(lam_o, go.reindex(obj.index))), float(np.dot(wo, lv) / n), 1e-9, 1e-12), "mean_loss_objective_identity_broken",
                  multiplier=c_, lambda_gamma=float(np.dot(lam_o, go.reindex(obj.index))), weighted_loss=float(np.dot(wo, lv) / n) if wo.shape == (n,) else None,
                  weights=wo.tolist()[:8], wit=wit)


def run_custom_utility(ctx, rng):
    """UtilityParity loaded with the caller's own utilities (documented `utilities=` argument: column 0 = utility of predicting 0,
    column 1 = of predicting 1): gamma is the difference of group / event means of u(h) = u0 + (u1 - u0) h, and the identity holds."""
    import fairlearn.reductions as red

    ds = ML.make_dataset(rng, nmin=4, nmax=20, control=False)
    n = ds.n
    style = gen.pick(rng, ["scaled", "signed", "per_row"])
    if style == "scaled":
        c_ = float(gen.pick(rng, [2.0, 0.5, 3.5, 0.1]))
        U = np.column_stack([np.zeros(n), np.full(n, c_)])
    elif style == "signed":
        U = np.column_stack([np.full(n, 1.0), np.full(n, float(gen.pick(rng, [-1.0, -0.5, 0.25])))])
    else:
        U = np.round(rng.uniform(-2, 3, size=(n, 2)), 2)
    by_label = bool(rng.random() < 0.5)
    event = pd.Series(["y=%d" % v for v in ds.y] if by_label else ["all"] * n)
    bt = gen.pick(rng, ["diff", "ratio"])
    ratio = 1.0 if bt == "diff" else float(gen.pick(rng, [0.8, 0.5]))
    m = red.UtilityParity(difference_bound=0.05) if bt == "diff" else red.UtilityParity(ratio_bound=ratio, ratio_bound_slack=0.02)
    m.load_data(ds.X, pd.Series(ds.y), sensitive_features=pd.Series(ds.g), event=event, utilities=U.copy())
    idx = list(m.index)
    wit = {"y": ds.y, "groups": ds.g, "events": event.tolist(), "utilities": U.tolist(), "bound": bt, "ratio": ratio}
    ctx.mark(["custom_utility", style, by_label, bt, n, len(idx)], len(set(ds.g)) >= 2, sample=wit)
    # definition
    h = rng.random(n)
    uh = U[:, 0] + (U[:, 1] - U[:, 0]) * h
    got = m.gamma(ML.FixedPredictor(h))
    for (sgn, ev_, grp) in idx:
        rows_e = [i for i in range(n) if event[i] == ev_]
        rows_eg = [i for i in rows_e if ds.g[i] == grp]
        me, meg = float(np.mean(uh[rows_e])), float(np.mean(uh[rows_eg]))
        exp = ratio * meg - me if sgn == "+" else ratio * me - meg
        ctx.ev("basis_identities_checked")
        ctx.check(close(got[(sgn, ev_, grp)], exp, 1e-9, 1e-12), "custom_utility_gamma_differs_from_definition", entry=repr((sgn, ev_, grp)), got=float(got[(sgn, ev_, grp)]),
                  expected=exp, wit=wit)
    # gradient identity, entry by entry and for a random non-negative multiplier vector and two soft predictors
    g0 = m.gamma(ML.FixedPredictor(np.zeros(n)))
    G = np.zeros((len(idx), n))
    for k in range(n):
        e = np.zeros(n)
        e[k] = 1.0
        gk = m.gamma(ML.FixedPredictor(e))
        G[:, k] = np.asarray([gk[ent] - g0[ent] for ent in idx], dtype=float)
    for j, ent in enumerate(idx):
        w = np.asarray(m.signed_weights(ML.lam_series(m, {ent: 1.0})), dtype=float)
        ctx.ev("basis_identities_checked", n)
        ctx.check(w.shape == (n,) and bool(np.allclose(G[j, :], -w / n, rtol=1e-9, atol=1e-12)), "signed_weights_is_not_the_gradient_of_lambda_gamma:custom_utilities",
                  entry=repr(ent), gamma_differences=G[j, :].tolist(), minus_weights_over_n=(-w / n).tolist() if w.shape == (n,) else None, wit=wit)
    lam = pd.Series(rng.random(len(idx)) * 3, index=m.index)
    h1, h2 = rng.random(n), rng.random(n)
    lhs = float(np.dot(lam, np.asarray(m.gamma(ML.FixedPredictor(h1)), float) - np.asarray(m.gamma(ML.FixedPredictor(h2)), float)))
    rhs = float(-np.dot(np.asarray(m.signed_weights(lam), float), h1 - h2) / n)
    ctx.ev("affinity_checks")
    ctx.check(close(lhs, rhs, 1e-9, 1e-11), "lambda_gamma_difference_differs_from_weighted_prediction_difference:custom_utilities", lhs=lhs, rhs=rhs, wit=wit)


def _norm(v):
    v = np.abs(np.asarray(v, dtype=float))
    s = v.sum()
    return v / s if s > 0 else v


def run_history(ctx, rng):
    import fairlearn.reductions as red

    algo = gen.pick(rng, ["eg", "grid", "grid", "grid_bgl"])
    if algo == "grid_bgl":
        return run_history_bgl(ctx, rng, red)
    kind = RM.PARITY[int(rng.integers(0, 5))]
    bound = ML.BOUNDS[int(rng.integers(0, len(ML.BOUNDS)))]
    ds = ML.make_dataset(rng, nmin=8, nmax=30, kmax=3, feature_levels=int(rng.integers(2, 6)))
    moment, ratio, eps = ML.make_moment(kind, bound)
    X, y, g, c = ML.wrap_inputs(rng, ds)
    kw = {"sensitive_features": g}
    if c is not None:
        kw["control_features"] = c
    learner = ExactLearner(hclass=gen.pick(rng, ["cells", "thresholds"]))
    fp, fn = 1.0, 1.0
    if algo == "eg":
        okw = {}
        if rng.random() < 0.5:
            # cost-sensitive objective (ExponentiatedGradient's `objective`), zero cost for one error type included: rows of that
            # label then carry exactly zero objective weight
            fp, fn = [(0.0, 1.0), (1.0, 0.0), (0.0, 2.5), (0.3, 1.0), (2.0, 0.5), (1.0, 3.0)][int(rng.integers(0, 6))]
            okw = {"objective": red.ErrorRate(costs={"fp": fp, "fn": fn})}
        est = red.ExponentiatedGradient(learner, moment, eps=float(gen.pick(rng, [0.05, 0.1, 0.2])), max_iter=int(gen.pick(rng, [3, 6, 10])),
                                        nu=1e-6, run_linprog_step=bool(rng.random() < 0.5), **okw)
    else:
        est = red.GridSearch(learner, moment, grid_size=int(gen.pick(rng, [3, 7, 12, 20])), grid_limit=float(gen.pick(rng, [0.5, 2.0, 5.0])),
                             constraint_weight=float(gen.pick(rng, [0.0, 0.5, 1.0])))
    est.fit(X, y, **kw)
    mom = est.constraints
    mapping, problems = ML.align_index(mom, kind, ds, ratio, rng)
    ctx.mark([algo, kind, list(bound), ds.n, len(set(ds.g)), None if ds.c is None else len(set(ds.c)), learner.hclass], True,
             sample={"algo": algo, "moment": kind, "bound": list(bound), "y": ds.y, "groups": ds.g, "control": ds.c, "x": ds.X[:, 0].tolist()})
    wit = {"algo": algo, "moment": kind, "bound": list(bound), "y": ds.y, "groups": ds.g, "control": ds.c, "objective_costs": {"fp": fp, "fn": fn}}
    if problems:
        ctx.violate("index_does_not_match_definition:" + problems[0][0], detail=problems[0][1], wit=wit)
        return
    lambdas = est.lambda_vecs_
    preds = est.predictors_
    # float32 label arrays make the library's objective weights single precision (costs such as 0.3 are then rounded to 0.30000001):
    # rounding of the caller's own dtype, not a defect - compare at single precision in that case
    f32 = str(getattr(y, "dtype", "")) == "float32"
    wtol, vtol = (1e-6, 1e-6) if f32 else (1e-9, 1e-9)
    wobj = RM.error_weights(ds.y, fp, fn)
    from vf.refs import saddle as RS

    tab = RS.Table(kind, ds, ratio, eps, ExactLearner.hypotheses(ds.X[:, 0], learner.hclass), fp, fn)
    cols = list(lambdas.columns)
    ctx.check(len(cols) == len(preds), "lambda_vecs_and_predictors_differ_in_number", lambdas=len(cols), predictors=len(preds), wit=wit)
    for pos, col in enumerate(cols):
        p = preds[col] if isinstance(preds, pd.Series) else preds[pos]
        lam = lambdas[col]
        w = wobj + RM.signed_weights(kind, ds.y, ds.g, {mapping[e]: float(lam[e]) for e in mom.index}, ratio, ds.c)
        yred = (w > 0).astype(int)
        if isinstance(p, DummyClassifier):
            ctx.ev("dummy_predictors_seen")
            live = np.abs(w) > wtol * max(1.0, float(np.abs(w).max()))
            ctx.check(len(set(yred[live].tolist())) <= 1, "dummy_predictor_although_relabelled_y_has_two_classes", column=repr(col), wit=wit)
            # the constant fallback is itself the best response (pointwise optimal when all weights have one sign): same consequence
            e_h, g_h = tab.of(np.asarray(p.predict(ds.X), float))
            lv = tab.lam_vec({mapping[e]: float(lam[e]) for e in mom.index})
            ctx.ev("best_response_consequences_checked")
            ctx.check(e_h + float(g_h @ lv) <= float((tab.err + tab.G @ lv).min()) + vtol, "constant_fallback_does_not_minimise_objective_plus_lambda_gamma",
                      column=repr(col), constant=float(np.asarray(p.predict(ds.X[:1]), float)[0]), value=e_h + float(g_h @ lv),
                      minimum_over_class=float((tab.err + tab.G @ lv).min()), w=w.tolist(), wit=wit)
            continue
        if not hasattr(p, "fit_y_"):
            ctx.ev("predictor_without_fit_record")
            continue
        ctx.ev("learner_fit_records_compared")
        # rows whose weight is zero up to rounding (objective and constraint weights cancel exactly) carry no information:
        # their label is decided by the last bit and their sample weight is ~0
        live = np.abs(w) > wtol * max(1.0, float(np.abs(w).max()))
        ctx.check(len(p.fit_y_) == ds.n and p.fit_y_[live].tolist() == yred[live].tolist(), "learner_not_fitted_on_labels_1_w_positive", column=repr(col),
                  fitted_y=p.fit_y_.tolist(), expected=yred.tolist(), w=w.tolist(), lam={repr(k): float(v) for k, v in lam.items()}, wit=wit)
        ctx.check(bool(np.allclose(_norm(p.fit_w_), _norm(w), rtol=wtol, atol=1e-12 if not f32 else 1e-7)), "learner_sample_weight_not_proportional_to_abs_w",
                  column=repr(col), fitted_w=p.fit_w_.tolist(), expected_abs_w=np.abs(w).tolist(), wit=wit)
        ctx.check(np.asarray(p.fit_X_).shape[0] == ds.n and bool(np.allclose(np.asarray(p.fit_X_, float)[:, 0], ds.X[:, 0])),
                  "learner_fitted_on_different_features", column=repr(col), wit=wit)
        # the consequence stated by the property: the exact cost-sensitive learner's output minimises objective + lambda.gamma over H
        e_h, g_h = tab.of(np.asarray(p.predict(ds.X), float))
        lv = tab.lam_vec({mapping[e]: float(lam[e]) for e in mom.index})
        ctx.ev("best_response_consequences_checked")
        ctx.check(e_h + float(g_h @ lv) <= float((tab.err + tab.G @ lv).min()) + vtol, "reweighted_best_response_does_not_minimise_objective_plus_lambda_gamma",
                  column=repr(col), value=e_h + float(g_h @ lv), minimum_over_class=float((tab.err + tab.G @ lv).min()), wit=wit)


def run_history_bgl(ctx, rng, red):
    ds = ML.make_dataset(rng, nmin=8, nmax=30, kmax=3, control=False, feature_levels=int(rng.integers(2, 5)))
    yv = np.round(rng.random(ds.n), 2).tolist()
    lname = gen.pick(rng, ["square", "abs"])
    loss = red.SquareLoss(0.0, 1.0) if lname == "square" else red.AbsoluteLoss(0.0, 1.0)
    gl = float(gen.pick(rng, [0.5, 2.0, 5.0]))
    est = red.GridSearch(ExactRegressor(loss=lname), red.BoundedGroupLoss(loss, upper_bound=0.1), grid_size=int(gen.pick(rng, [3, 6, 11])), grid_limit=gl)
    est.fit(ds.X, yv, sensitive_features=gen.as_vec(ds.g, gen.pick(rng, ["list", "ndarray", "series"]), rng))
    n = ds.n
    pg = {a: sum(1 for v in ds.g if v == a) / n for a in set(ds.g)}
    ctx.mark(["grid_bgl", lname, n, len(pg), gl], True, sample={"y": yv, "groups": ds.g, "x": ds.X[:, 0].tolist(), "loss": lname})
    wit = {"y": yv, "groups": ds.g, "loss": lname}
    for pos, col in enumerate(est.lambda_vecs_.columns):
        p, lam = est.predictors_[pos], est.lambda_vecs_[col]
        if not hasattr(p, "fit_y_"):
            continue
        w = np.array([float(lam[a]) / pg[a] for a in ds.g])
        ctx.ev("learner_fit_records_compared")
        ctx.check(bool(np.allclose(p.fit_y_, yv)), "regression_learner_fitted_on_changed_targets", column=repr(col), wit=wit)
        ctx.check(bool(np.allclose(p.fit_w_, w, rtol=1e-9, atol=1e-12)), "regression_learner_weights_are_not_lambda_over_group_probability",
                  column=repr(col), fitted_w=p.fit_w_.tolist(), expected=w.tolist(), lam=lam.tolist(), wit=wit)
        ctx.check(close(float(np.abs(np.asarray(lam, float)).sum()), gl, 1e-9), "loss_moment_grid_column_l1_norm_is_not_grid_limit",
                  l1=float(np.abs(np.asarray(lam, float)).sum()), grid_limit=gl, wit=wit)
