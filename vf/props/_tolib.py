"""Shared workload for the ThresholdOptimizer properties (C04, C05, and models for C10/C13)."""
from __future__ import annotations

import itertools

import numpy as np
import pandas as pd
from sklearn.base import BaseEstimator

from vf import gen
from vf.refs import threshold_opt as RT

CONSTRAINTS = list(RT.SIMPLE.keys()) + ["equalized_odds"]
GRID_SIZES = [1, 2, 3, 5, 7, 10, 100, 1000]
FINE_GRID_SIZES = [10 ** 5, 2 * 10 ** 5 + 1]   # group size x grid size beyond 1e5: grid points within 1e-5 (relative) of hull vertices


class ScoreColumn(BaseEstimator):
    """Prefit passthrough 'estimator': the score of a row is column 0 of X (so the generator chooses the scores)."""

    def __init__(self, method="predict", out_dtype=None):
        self.method = method
        self.out_dtype = out_dtype  # scorecards / quantised models hand out narrow integer or half-precision scores

    def fit(self, X, y=None, **kw):
        self.fitted_ = True
        return self

    def _s(self, X):
        A = X.values if isinstance(X, pd.DataFrame) else np.asarray(X)
        out = A[:, 0].astype(float)
        if self.out_dtype is None:
            return out
        with np.errstate(all="ignore"):
            cast = out.astype(self.out_dtype)
        # query points the narrow dtype cannot hold (negative for unsigned, fractional, out of range) are handed out as float64
        return cast if bool(np.array_equal(cast.astype(float), out)) else out

    def predict(self, X):
        return self._s(X)

    def decision_function(self, X):
        return self._s(X)


def config_schedule(i):
    """Deterministic rotation over constraints x admissible objectives x flip x grid size."""
    combos = []
    for c in CONSTRAINTS:
        for o in (RT.OBJECTIVES_EO if c == "equalized_odds" else RT.OBJECTIVES_SIMPLE):
            for flip in (False, True):
                combos.append((c, o, flip))
    c, o, flip = combos[i % len(combos)]
    gs = GRID_SIZES[(i // len(combos) + i) % len(GRID_SIZES)]
    return c, o, flip, gs


def config_random(rng, interior_bias=0.7):
    """Random configuration; objectives whose optimum is a constant classifier (selection_rate, TPR, TNR as objective)
    are down-weighted so that most fits have an interior optimum and a genuinely randomised rule."""
    c = CONSTRAINTS[int(rng.integers(0, len(CONSTRAINTS)))]
    if c == "equalized_odds" or rng.random() < interior_bias:
        o = gen.pick(rng, ["accuracy_score", "balanced_accuracy_score"])
    else:
        o = gen.pick(rng, ["selection_rate", "true_positive_rate", "true_negative_rate"])
    return c, o, bool(rng.random() < 0.5), GRID_SIZES[int(rng.integers(0, len(GRID_SIZES)))]


_ROW_TYPES = [(g, l, s) for g in (0, 1) for l in (0, 1) for s in (0, 1, 2)]


def exhaustive_multisets(max_size):
    """All multisets of (group, label, score-level) rows with both labels in both groups, sizes 4..max_size."""
    out = []
    for size in range(4, max_size + 1):
        for combo in itertools.combinations_with_replacement(range(len(_ROW_TYPES)), size):
            rows = [_ROW_TYPES[i] for i in combo]
            ok = all({(g, l) for (g, l, _) in rows} >= {(gg, 0), (gg, 1)} for gg in (0, 1))
            if ok:
                out.append(combo)
    return out


def rows_of_multiset(combo, levels=(0.0, 1.0, 2.0)):
    rows = [_ROW_TYPES[i] for i in combo]
    g = ["g%d" % r[0] for r in rows]
    y = [r[1] for r in rows]
    s = [levels[r[2]] for r in rows]
    return g, y, s


SCORE_FAMILIES = ["few_levels", "rationals", "gauss", "huge", "tiny_gaps", "probabilities", "constant_in_group", "ladder", "ladder", "byte_scores"]


def random_dataset(rng, family=None, kmax=5, nmax=40, max_levels=None, informative=None):
    k = int(rng.integers(2, kmax + 1))
    n = int(rng.integers(2 * k, max(2 * k, nmax) + 1))
    gi = gen.skewed_labels(rng, n, k).tolist()
    y = rng.integers(0, 2, size=n).tolist()
    # guarantee both labels in every group (precondition of the property): append what is missing
    for a in range(k):
        labs = {y[i] for i in range(len(y)) if gi[i] == a}
        for lab in (0, 1):
            if lab not in labs:
                gi.append(a)
                y.append(lab)
    n = len(y)
    family = family or gen.pick(rng, SCORE_FAMILIES)
    if family == "few_levels":
        L = int(rng.integers(1, 5))
        s = rng.integers(0, L + 1, size=n).astype(float)
    elif family == "rationals":
        L = int(gen.pick(rng, [2, 3, 5, 10]))
        s = rng.integers(0, L + 1, size=n) / L
    elif family == "gauss":
        s = rng.normal(size=n) + np.asarray(y) * rng.uniform(-1, 2)
    elif family == "huge":
        s = rng.normal(size=n) * 10.0 ** int(rng.integers(3, 200)) * rng.choice([-1, 1])
    elif family == "tiny_gaps":
        s = 1.0 + rng.integers(0, 4, size=n) * 1e-9
    elif family == "ladder":
        # distinct scores on a geometric ladder base*(1 - j*delta), delta log-uniform over ten decades: near-ties at every
        # scale (any tolerance-based tie detection has its boundary somewhere in this range)
        base = float(gen.pick(rng, [1.0, 0.7, 1000.0, -3.0, 1e-3, 0.9999]))
        delta = 10.0 ** rng.uniform(-12, -2)
        s = base * (1.0 - rng.integers(0, 6, size=n) * delta)
    elif family == "probabilities":
        s = np.clip(rng.beta(0.6, 0.6, size=n), 0, 1)
    elif family == "byte_scores":
        # a points-based scorecard: integers 0..255 with 0 and the top of the range present (delivered in a narrow dtype, see fit_optimizer)
        s = rng.choice(np.array([0, 1, 2, 100, 127, 128, 129, 200, 254, 255]), size=n).astype(float)
    else:
        s = rng.normal(size=n)
        a = int(rng.integers(0, k))
        s[[i for i in range(n) if gi[i] == a]] = float(rng.normal())
    if informative is None:
        informative = bool(rng.random() < 0.5)
    if informative and family != "ladder":
        # make the scores carry signal about the label (interior optima, genuinely randomised rules)
        s = np.asarray(s, dtype=float)
        spread = float(s.max() - s.min()) or 1.0
        if family == "byte_scores":
            s = np.clip(s + np.asarray(y) * 60.0 * (rng.random(n) < 0.7), 0, 255)
        elif family in ("few_levels", "rationals", "tiny_gaps"):
            step = {"few_levels": 1.0, "rationals": 0.5, "tiny_gaps": 2e-9}[family]
            s = s + np.asarray(y) * step * (rng.random(n) < 0.7)
        else:
            s = s + np.asarray(y) * spread * rng.uniform(0.2, 1.0) * (rng.random(n) < 0.8)
        if rng.random() < 0.35:
            # one group whose scores are ANTI-predictive (with flip=True its best rules are 'score < t', possibly at the
            # very thresholds another group uses with 'score > t')
            a = int(rng.integers(0, k))
            rows = [i for i in range(n) if gi[i] == a]
            lo, hi = float(s.min()), float(s.max())
            s[rows] = lo + hi - s[rows]
    if max_levels is not None:
        # limit the number of distinct scores per group (keeps the reference's pair enumeration small)
        s = np.asarray(s, dtype=float)
        for a in range(k):
            rows = [i for i in range(n) if gi[i] == a]
            vals = sorted(set(s[rows].tolist()))
            if len(vals) > max_levels:
                keep = vals[:max_levels]
                for i in rows:
                    if s[i] not in keep:
                        s[i] = keep[int(rng.integers(0, max_levels))]
    names = gen.pick(rng, [["a", "b", "c", "d", "e"], [0, 1, 2, 3, 4], ["x,y", "x", "y", "", " "]])
    g = [names[i] for i in gi]
    return g, y, np.asarray(s, dtype=float).tolist(), family


def fit_optimizer(g, y, s, constraint, objective, flip, grid_size, rng=None, hostile=False, extra_cols=0):
    """Fit a ThresholdOptimizer on prefit passthrough scores; returns (optimizer, X, sensitive_features argument)."""
    from fairlearn.postprocessing import ThresholdOptimizer

    n = len(y)
    X = np.asarray(s, dtype=float).reshape(-1, 1)
    if extra_cols and rng is not None:
        X = np.column_stack([X, rng.normal(size=(n, extra_cols))])
    sf, yy, Xin = g, y, X
    if hostile and rng is not None:
        sf = gen.as_vec(g, gen.pick(rng, ["list", "ndarray", "series", "df"]), rng, name="grp")
        yy = gen.as_vec(y, gen.pick(rng, ["list", "ndarray", "series", "df"]), rng, name="lab")
        if rng.random() < 0.5:
            Xin = pd.DataFrame(X, columns=["c%d" % j for j in range(X.shape[1])], index=gen.hostile_index(n, gen.pick(rng, gen.INDEX_KINDS), rng))
    out_dtype = None
    sv = np.asarray(s, dtype=float)
    if rng is not None and bool(np.all(sv == np.round(sv))) and float(np.abs(sv).max()) <= 2048:
        # integral scores: delivered by the estimator in a narrow dtype that holds them exactly (sums of two scores may not fit)
        fits = [None, "float32", "float16", "int16", "int64"]
        if sv.min() >= 0:
            fits += ["uint16", "uint64"] + (["uint8", "uint8"] if sv.max() <= 255 else [])
        if sv.min() >= -128 and sv.max() <= 127:
            fits += ["int8"]
        out_dtype = gen.pick(rng, fits)
    est = ScoreColumn(out_dtype=out_dtype).fit(X)
    if rng is not None and rng.random() < 0.25:
        # configuration arriving through set_params after construction (what clone().set_params() / model selection does)
        to = ThresholdOptimizer(estimator=est, prefit=True, predict_method="predict", grid_size=int(gen.pick(rng, [2, 4, 37])),
                                flip=not flip)
        to.set_params(constraints=constraint, objective=objective, grid_size=grid_size, flip=flip)
    else:
        to = ThresholdOptimizer(estimator=est, constraints=constraint, objective=objective, grid_size=grid_size, flip=flip, prefit=True,
                                predict_method="predict")
    to.fit(Xin, yy, sensitive_features=sf)
    return to, Xin, sf


def fit_optimizer_sklearn(g, y, X, constraint, objective, flip, grid_size, rng):
    """ThresholdOptimizer around a real scikit-learn estimator (prefit=False); returns (optimizer, scores it thresholds)."""
    from fairlearn.postprocessing import ThresholdOptimizer
    from sklearn.linear_model import LogisticRegression, Ridge
    from sklearn.svm import LinearSVC
    from sklearn.tree import DecisionTreeClassifier

    kind = gen.pick(rng, ["logreg_auto", "logreg_proba", "logreg_decision", "svc_auto", "svc_decision", "ridge_auto", "ridge_predict", "tree_proba", "tree_predict"])
    est = {"logreg": LogisticRegression(C=10.0), "svc": LinearSVC(C=1.0), "ridge": Ridge(alpha=1.0), "tree": DecisionTreeClassifier(max_depth=2, random_state=0)}[kind.split("_")[0]]
    method = {"auto": "auto", "proba": "predict_proba", "decision": "decision_function", "predict": "predict"}[kind.split("_")[1]]
    to = ThresholdOptimizer(estimator=est, constraints=constraint, objective=objective, grid_size=grid_size, flip=flip, prefit=False, predict_method=method)
    to.fit(X, y, sensitive_features=g)
    e = to.estimator_
    base = kind.split("_")[0]
    if method == "auto":
        scores = e.predict_proba(X)[:, 1] if base in ("logreg", "tree") else (e.decision_function(X) if base == "svc" else e.predict(X))
    elif method == "predict_proba":
        scores = e.predict_proba(X)[:, 1]
    elif method == "decision_function":
        scores = e.decision_function(X)
    else:
        scores = e.predict(X)
    return to, np.asarray(scores, dtype=float), kind


def groups_dict(g, y, s):
    out = {}
    for gi, yi, si in zip(g, y, s):
        out.setdefault(gi, ([], []))
        out[gi][0].append(si)
        out[gi][1].append(yi)
    return out


def signature(g, y, s, constraint, objective, flip, gs):
    per = sorted((sum(1 for a in g if a == gv), len({s[i] for i in range(len(s)) if g[i] == gv})) for gv in dict.fromkeys(g))
    return [constraint, objective, flip, gs, len(y), per]
