"""Runtime-monitoring machinery for fairlearn's properties C01-C20 (see /verif/DESIGN.md)."""
import os
import sys

_deps = os.path.join(os.path.dirname(os.path.dirname(os.path.abspath(__file__))), ".deps")
if os.path.isdir(_deps) and _deps not in sys.path:
    sys.path.append(_deps)  # appended: never shadows the repository interpreter's own packages
