"""icontract postconditions attached FROM THE HARNESS to public fairlearn callables (no repository edit).

Conditions are named functions that record and return True: a firing contract never changes the behaviour it
observes.  They state only what the properties state for ALL inputs, with explicit guards.  Every evaluation is
counted, because references bound before decoration bypass a contract (zero evaluations = 'not reached')."""
from __future__ import annotations

import json
import os
import sys
from collections import Counter

import numpy as np

EVALS = Counter()
VIOLATIONS = []
_ATTACHED = False


class ContractBroken(Exception):
    pass


def _record(name, ok, **detail):
    EVALS[name] += 1
    if not ok and len(VIOLATIONS) < 200:
        VIOLATIONS.append({"contract": name, "detail": {k: repr(v)[:300] for k, v in detail.items()}})
    return True


def _is_scalar(x):
    return isinstance(x, (int, float, np.integer, np.floating, np.bool_, bool))


# ---- C14: the seven base metrics -------------------------------------------------------------------

def _binary_ok(y_true, y_pred):
    try:
        vals = set(np.unique(np.concatenate([np.asarray(y_true).ravel(), np.asarray(y_pred).ravel()])).tolist())
        return len(vals) <= 2 and len(np.asarray(y_true).ravel()) >= 1
    except Exception:  # noqa: BLE001
        return False


def _weights_ok(sample_weight):
    if sample_weight is None:
        return True
    try:
        w = np.asarray(sample_weight, dtype=float).ravel()
        return bool(np.isfinite(w).all() and (w > 0).all())
    except Exception:  # noqa: BLE001
        return False


def rate_is_scalar_in_unit_interval(result, y_true, y_pred, sample_weight=None, pos_label=None):
    if not (_binary_ok(y_true, y_pred) and _weights_ok(sample_weight)):
        EVALS["rate:guard_skipped"] += 1
        return True
    ok = _is_scalar(result) and (-1e-12 <= float(result) <= 1 + 1e-12)
    return _record("C14:rate_is_scalar_in_unit_interval", ok, result=result, y_true=y_true, y_pred=y_pred, sample_weight=sample_weight)


def selection_rate_is_scalar_in_unit_interval(result, y_true, y_pred, pos_label=1, sample_weight=None):
    if not _weights_ok(sample_weight) or np.asarray(y_pred).size < 1:
        EVALS["selection_rate:guard_skipped"] += 1
        return True
    ok = _is_scalar(result) and (-1e-12 <= float(result) <= 1 + 1e-12)
    return _record("C14:selection_rate_is_scalar_in_unit_interval", ok, result=result, y_pred=y_pred, sample_weight=sample_weight)


def count_is_number_of_rows(result, y_true, y_pred):
    return _record("C14:count_is_number_of_rows", _is_scalar(result) and int(result) == len(y_true), result=result)


# ---- C02: inequalities on every MetricFrame built anywhere ------------------------------------------

def metricframe_aggregate_inequalities(self):
    import pandas as pd

    try:
        bg = self.by_group
        vals = bg.to_numpy().ravel().tolist() if isinstance(bg, (pd.Series, pd.DataFrame)) else []
        if not vals or not all(_is_scalar(v) or v is None for v in vals):
            EVALS["metricframe:guard_skipped"] += 1
            return True
        res = {}
        for m in ("between_groups", "to_overall"):
            res[("difference", m)] = np.asarray(self.difference(method=m), dtype=float).ravel()
            res[("ratio", m)] = np.asarray(self.ratio(method=m), dtype=float).ravel()
    except Exception:  # noqa: BLE001  non-numeric metric results etc.: outside the property's quantifier
        EVALS["metricframe:guard_skipped"] += 1
        return True
    db, dt = res[("difference", "between_groups")], res[("difference", "to_overall")]
    ok = True
    ok &= bool(np.all(np.isnan(db) | (db >= 0))) and bool(np.all(np.isnan(dt) | (dt >= 0)))
    ok &= bool(np.all(np.isnan(db) | np.isnan(dt) | (db <= 2 * dt * (1 + 1e-12) + 1e-300)))
    rt = res[("ratio", "to_overall")]
    ok &= bool(np.all(np.isnan(rt) | (rt <= 1)))
    return _record("C02:metricframe_aggregate_inequalities", ok, difference_between=db, difference_to_overall=dt, ratio_to_overall=rt)


# ---- C10: reported probability mass functions ----------------------------------------------------------

def pmf_is_valid(result):
    try:
        import pandas as pd

        if isinstance(result, pd.DataFrame):  # regression moments: per-predictor outputs, not a pmf
            EVALS["pmf:guard_skipped"] += 1
            return True
        p = np.asarray(result, dtype=float)
    except Exception:  # noqa: BLE001
        EVALS["pmf:guard_skipped"] += 1
        return True
    ok = p.ndim == 2 and p.shape[1] == 2 and bool(((p >= -1e-12) & (p <= 1 + 1e-12)).all()) and bool(np.allclose(p.sum(axis=1), 1.0, atol=1e-9))
    return _record("C10:pmf_is_valid", ok, head=p[:4] if p.ndim == 2 else p)


# ---- attachment ----------------------------------------------------------------------------------------

def _rebind(original, wrapped):
    """Replace every module-level (and _DerivedMetric._metric_fn) reference to `original` inside fairlearn."""
    n = 0
    for name, mod in list(sys.modules.items()):
        if not name.startswith("fairlearn") or mod is None:
            continue
        for attr, val in list(vars(mod).items()):
            if val is original:
                setattr(mod, attr, wrapped)
                n += 1
    try:
        from fairlearn.metrics import _generated_metrics as G

        for fn in G._generated_metric_dict.values():
            if getattr(fn, "_metric_fn", None) is original:
                fn._metric_fn = wrapped
                n += 1
    except Exception:  # noqa: BLE001
        pass
    return n


def attach():
    global _ATTACHED
    if _ATTACHED:
        return
    _ATTACHED = True
    import icontract

    import fairlearn.metrics as M
    import importlib

    B = importlib.import_module("fairlearn.metrics._base_metrics")
    from fairlearn.metrics._metric_frame import MetricFrame
    from fairlearn.postprocessing import ThresholdOptimizer
    from fairlearn.postprocessing._interpolated_thresholder import InterpolatedThresholder
    from fairlearn.reductions import ExponentiatedGradient

    for fname in ("true_positive_rate", "true_negative_rate", "false_positive_rate", "false_negative_rate"):
        orig = getattr(B, fname)
        wrapped = icontract.ensure(rate_is_scalar_in_unit_interval, error=ContractBroken)(orig)
        EVALS["rebound:" + fname] = _rebind(orig, wrapped)
    orig = B.selection_rate
    EVALS["rebound:selection_rate"] = _rebind(orig, icontract.ensure(selection_rate_is_scalar_in_unit_interval, error=ContractBroken)(orig))
    orig = B.count
    EVALS["rebound:count"] = _rebind(orig, icontract.ensure(count_is_number_of_rows, error=ContractBroken)(orig))
    MetricFrame.__init__ = icontract.ensure(metricframe_aggregate_inequalities, error=ContractBroken)(MetricFrame.__init__)
    for cls in (ExponentiatedGradient, ThresholdOptimizer, InterpolatedThresholder):
        cls._pmf_predict = icontract.ensure(pmf_is_valid, error=ContractBroken)(cls._pmf_predict)
    _ = M


def dump(path):
    with open(path, "w") as f:
        json.dump({"evaluations": dict(EVALS), "violations": VIOLATIONS}, f)


def run_repo_tests_under_contracts(test_paths, timeout=1500):
    """Runs parts of the repository's own test-suite with the contracts attached (traffic source); pass/fail of the
    tests is ignored, only contract events are read.  Returns dict or None when the repository has no tests here."""
    import subprocess
    import tempfile

    from vf.common import REPO, VERIF_DIR

    if not all(os.path.exists(os.path.join(REPO, p)) for p in test_paths):
        return None
    log = tempfile.mktemp(prefix="vf_contracts_", suffix=".json")
    env = dict(os.environ, VF_CONTRACT_LOG=log, PYTHONPATH=os.pathsep.join([REPO, VERIF_DIR]), OMP_NUM_THREADS="2")
    try:
        subprocess.run(["/venv/bin/python", "-m", "pytest", "-q", "-p", "no:cacheprovider", "-p", "vf.pytest_contracts", "--timeout=600",
                        "--continue-on-collection-errors"] + list(test_paths), cwd=REPO, env=env, stdout=subprocess.DEVNULL, stderr=subprocess.DEVNULL,
                       timeout=timeout)
    except subprocess.TimeoutExpired:
        pass
    if not os.path.exists(log):
        return {"evaluations": {}, "violations": [], "note": "no contract log written"}
    out = json.load(open(log))
    os.remove(log)
    return out


def flush_into(ctx, only_prefix):
    """Move the events accumulated since the last flush into a case context (contracts of other properties are dropped)."""
    for k, v in list(EVALS.items()):
        if k.startswith(only_prefix) and not k.startswith("rebound"):
            ctx.ev("contract_evaluations:" + k, v)
    for v in VIOLATIONS:
        if v["contract"].startswith(only_prefix):
            ctx.violate("contract_violated:" + v["contract"], **v["detail"])
    EVALS.clear()
    del VIOLATIONS[:]


def repo_tests_case(ctx, only_prefix, test_paths):
    """A workload case: the repository's own tests as traffic under the contracts."""
    out = run_repo_tests_under_contracts(test_paths)
    if out is None:
        ctx.ev("repo_tests_absent")
        return
    n = 0
    for k, v in out["evaluations"].items():
        if k.startswith(only_prefix):
            ctx.ev("contract_evaluations_under_repo_tests:" + k, v)
            n += v
    ctx.ev("repo_test_runs")
    for v in out["violations"]:
        if v["contract"].startswith(only_prefix):
            ctx.violate("contract_violated_under_repo_tests:" + v["contract"], **v["detail"])
    ctx.mark(["repo_tests", list(test_paths)], n > 0, sample={"repo_tests": list(test_paths), "contract_evaluations": n})
