"""Base learners handed to the reductions as `estimator`: exact cost-sensitive learners over an
enumerable hypothesis class that also record exactly what they were fitted with (client-boundary history)."""
from __future__ import annotations

import itertools

import numpy as np
from sklearn.base import BaseEstimator


def _col0(X):
    A = np.asarray(X)
    if A.ndim == 1:
        return A.astype(float)
    return A[:, 0].astype(float)


class ExactLearner(BaseEstimator):
    """Minimises the weighted 0/1 error exactly over a finite class of classifiers of the FIRST feature column.

    hclass='cells'      : every 0/1 labelling of the distinct values of column 0 seen in fit (2^m hypotheses)
    hclass='thresholds' : x > t and x < t for every cut between consecutive distinct values, plus both constants
    Ties are broken towards the smaller hypothesis index (any minimiser is an exact best response)."""

    def __init__(self, hclass="cells", tag=None, output="ndarray"):
        self.hclass = hclass
        self.tag = tag
        self.output = output  # "series_like_X": a pandas-aware estimator whose predict() returns a Series indexed like X

    # -- hypothesis class ---------------------------------------------------------------------------
    @staticmethod
    def hypotheses(x, hclass):
        """list of prediction vectors (0/1 ints) on the sample x, one per hypothesis, with descriptors."""
        vals = sorted(set(np.asarray(x, dtype=float).tolist()))
        out = []
        if hclass == "cells":
            for bits in itertools.product([0, 1], repeat=len(vals)):
                lab = dict(zip(vals, bits))
                out.append((("cells", tuple(sorted(lab.items()))), np.array([lab[v] for v in np.asarray(x, dtype=float).tolist()], dtype=int)))
        else:
            xs = np.asarray(x, dtype=float)
            out.append((("const", 0), np.zeros(len(xs), dtype=int)))
            out.append((("const", 1), np.ones(len(xs), dtype=int)))
            cuts = [(a + b) / 2.0 for a, b in zip(vals[:-1], vals[1:])]
            for t in cuts:
                out.append(((">", t), (xs > t).astype(int)))
                out.append((("<", t), (xs < t).astype(int)))
        return out

    def fit(self, X, y, sample_weight=None):
        x = _col0(X)
        y = np.asarray(y).astype(int).reshape(-1)
        w = np.ones(len(y)) if sample_weight is None else np.asarray(sample_weight, dtype=float).reshape(-1)
        self.fit_X_ = np.array(np.asarray(X), copy=True)
        self.fit_y_ = y.copy()
        self.fit_w_ = w.copy()
        best, best_cost = None, None
        for desc, pred in self.hypotheses(x, self.hclass):
            cost = float(np.sum(w * (pred != y)))
            if best_cost is None or cost < best_cost - 1e-15 * max(1.0, abs(best_cost)):
                best, best_cost = desc, cost
        self.rule_ = best
        self.classes_ = np.array([0, 1])
        return self

    def predict(self, X):
        out = self._predict(X)
        if self.output == "series_like_X" and hasattr(X, "index"):
            import pandas as pd

            return pd.Series(out, index=X.index)
        return out

    def _predict(self, X):
        x = _col0(X)
        kind = self.rule_[0]
        if kind == "cells":
            lab = dict(self.rule_[1])
            return np.array([lab.get(float(v), 0) for v in x.tolist()], dtype=int)
        if kind == "const":
            return np.full(len(x), self.rule_[1], dtype=int)
        if kind == ">":
            return (x > self.rule_[1]).astype(int)
        return (x < self.rule_[1]).astype(int)

    def predict_proba(self, X):
        p = self.predict(X).astype(float)
        return np.column_stack([1 - p, p])


class ExactRegressor(BaseEstimator):
    """Per distinct value of column 0, predicts the value from `grid` minimising the weighted loss (square or absolute).
    Records what it was fitted with."""

    def __init__(self, grid=(0.0, 0.25, 0.5, 0.75, 1.0), loss="square"):
        self.grid = grid
        self.loss = loss

    def fit(self, X, y, sample_weight=None):
        x = _col0(X)
        y = np.asarray(y, dtype=float).reshape(-1)
        w = np.ones(len(y)) if sample_weight is None else np.asarray(sample_weight, dtype=float).reshape(-1)
        self.fit_X_ = np.array(np.asarray(X), copy=True)
        self.fit_y_ = y.copy()
        self.fit_w_ = w.copy()
        self.rule_ = {}
        for v in sorted(set(x.tolist())):
            rows = x == v
            costs = []
            for gval in self.grid:
                d = y[rows] - gval
                costs.append(float(np.sum(w[rows] * (d ** 2 if self.loss == "square" else np.abs(d)))))
            self.rule_[v] = float(self.grid[int(np.argmin(costs))])
        return self

    def predict(self, X):
        x = _col0(X)
        return np.array([self.rule_.get(float(v), float(self.grid[0])) for v in x.tolist()], dtype=float)
