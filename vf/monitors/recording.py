"""RecordingMetric: a user-supplied metric callable that fairlearn itself invokes.

Every invocation is logged (the exact arrays received) and answered with a unique number, so a
cell value in MetricFrame.by_group/overall names the invocation that produced it and that
invocation's log names the rows and the parameter slices the metric really saw."""
from __future__ import annotations

import numpy as np


class RecordingMetric:
    def __init__(self, name="rec", offset=0.0, param_names=(), scribble=False):
        self.__name__ = name
        self.offset = float(offset)
        self.param_names = tuple(param_names)
        self.scribble = scribble  # a metric that works in place on the arrays it was given (sorts / overwrites them)
        self.log = []

    def __call__(self, y_true, y_pred, **params):
        rec = {"y_true": np.asarray(y_true).tolist(), "y_pred": np.asarray(y_pred).tolist(),
               "params": {k: np.asarray(v).tolist() for k, v in params.items()}}
        self.log.append(rec)
        if self.scribble:
            for a in [y_true, y_pred] + list(params.values()):
                if isinstance(a, np.ndarray) and a.flags.writeable and a.dtype.kind in "iuf":
                    a[...] = -7
        return self.offset + float(len(self.log) - 1)

    def invocation(self, value):
        """The log record a cell value points at, or None."""
        try:
            k = float(value) - self.offset
        except (TypeError, ValueError):
            return None
        if k != k or k < 0 or k >= len(self.log) or int(k) != k:
            return None
        return self.log[int(k)]

    def rows_of(self, rec):
        """multiset (sorted list) of (y_true, y_pred, param...) tuples of one invocation."""
        cols = [rec["y_true"], rec["y_pred"]] + [rec["params"].get(p) for p in self.param_names]
        n = len(rec["y_true"])
        out = []
        for i in range(n):
            out.append(tuple(None if c is None else (c[i] if i < len(c) else "<short>") for c in cols))
        return sorted(out, key=repr)
