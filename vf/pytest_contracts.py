"""pytest plugin (-p vf.pytest_contracts): attaches the icontract monitors before the repository's tests run and
dumps the contract events at the end of the session to $VF_CONTRACT_LOG."""
import os


def pytest_configure(config):
    from vf.monitors import contracts

    contracts.attach()


def pytest_sessionfinish(session, exitstatus):
    from vf.monitors import contracts

    path = os.environ.get("VF_CONTRACT_LOG")
    if path:
        contracts.dump(path)
