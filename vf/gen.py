"""Seeded generators shared by the property workloads."""
from __future__ import annotations

import numpy as np
import pandas as pd

INDEX_KINDS = ["range", "shuffled", "offset", "dup", "str", "reversed"]
VEC_KINDS = ["list", "ndarray", "series", "col", "df"]


def hostile_index(n, kind, rng):
    if kind == "range":
        return pd.RangeIndex(n)
    if kind == "shuffled":
        return pd.Index(rng.permutation(n))
    if kind == "offset":
        return pd.Index(np.arange(n) + int(rng.integers(1, 1000)))
    if kind == "dup":
        return pd.Index(np.zeros(n, dtype=int) + int(rng.integers(0, 3)))
    if kind == "str":
        return pd.Index(["r%d" % i for i in rng.permutation(n)])
    if kind == "reversed":
        return pd.Index(np.arange(n)[::-1])
    raise ValueError(kind)


def as_vec(values, kind, rng=None, index_kind=None, name=None):
    """Wrap a 1-D sequence in one of the accepted container types.
    series/df get a hostile index (different per call) so label alignment would mis-pair rows."""
    vals = list(values)
    n = len(vals)
    if kind == "list":
        return vals
    arr = np.asarray(vals)
    if kind == "ndarray":
        return arr
    if kind == "col":
        return arr.reshape(-1, 1)
    if rng is None:
        rng = np.random.default_rng(0)
    ik = index_kind or INDEX_KINDS[int(rng.integers(0, len(INDEX_KINDS)))]
    idx = hostile_index(n, ik, rng)
    if kind == "series":
        return pd.Series(vals, index=idx, name=name)
    if kind == "df":
        return pd.DataFrame({(name or "c0"): vals}, index=idx)
    raise ValueError(kind)


def pick(rng, seq):
    return seq[int(rng.integers(0, len(seq)))]


def skewed_labels(rng, n, k):
    """n draws from k values with a random skewed distribution: singletons/absent values are frequent."""
    p = rng.dirichlet(np.full(k, 0.6))
    return rng.choice(k, size=n, p=p)


def positive_weights(rng, n, kind=None):
    kind = kind or pick(rng, ["int", "real", "tiny", "huge", "mixed"])
    if kind == "int":
        return rng.integers(1, 6, size=n).astype(float)
    if kind == "real":
        return rng.uniform(0.05, 5.0, size=n)
    if kind == "tiny":
        return rng.uniform(1e-6, 1e-3, size=n)
    if kind == "huge":
        return rng.uniform(1e3, 1e6, size=n)
    return np.where(rng.random(n) < 0.5, rng.uniform(1e-3, 1.0, size=n), rng.integers(1, 50, size=n).astype(float))
