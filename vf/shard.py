"""Child process: runs one shard of one property's workload and writes an aggregate JSON.

usage: python -m vf.shard <prop> <tier> <seed> <shard> <nshards> <outfile> <soft_deadline_s>
"""
from __future__ import annotations

import faulthandler
import importlib
import json
import os
import sys
import time
import traceback
import warnings
from collections import Counter

faulthandler.enable()
warnings.filterwarnings("ignore")
os.environ.setdefault("OMP_NUM_THREADS", "1")
os.environ.setdefault("MKL_NUM_THREADS", "1")
os.environ.setdefault("OPENBLAS_NUM_THREADS", "1")

from vf.common import REPO, Ctx, jsonable, sig_hash  # noqa: E402


def _install_reach_probe():
    """sys.monitoring PY_START probe counting entries of fairlearn functions (evidence only)."""
    counts = Counter()
    try:
        mon = sys.monitoring
    except AttributeError:
        return counts
    tool = mon.PROFILER_ID
    try:
        mon.use_tool_id(tool, "vf_reach")
    except ValueError:
        return counts
    prefix = os.path.join(REPO, "fairlearn") + os.sep

    def on_start(code, offset):
        fn = code.co_filename
        if not fn.startswith(prefix):
            return mon.DISABLE
        counts[fn[len(prefix):] + ":" + code.co_qualname] += 1
        return None

    mon.register_callback(tool, mon.events.PY_START, on_start)
    mon.set_events(tool, mon.events.PY_START)
    return counts


def touches_fairlearn(tb) -> tuple[bool, str]:
    prefix = os.path.join(REPO, "fairlearn") + os.sep
    inner = ""
    hit = False
    for fr in traceback.extract_tb(tb):
        if fr.filename.startswith(prefix):
            hit = True
            inner = "%s:%s" % (fr.filename[len(prefix):], fr.name)
    return hit, inner


def run_one(mod, cls, key, seed, tier):
    ctx = Ctx(mod.ID, cls, key, seed, tier)
    try:
        mod.run_case(cls, key, seed, ctx)
    except Exception as e:  # noqa: BLE001
        hit, inner = touches_fairlearn(e.__traceback__)
        tb = traceback.format_exc()[-1800:]
        if hit:
            # fairlearn raised on an input the property quantifies over: that is a refutation
            ctx.violate("exception:%s@%s" % (type(e).__name__, inner), message=str(e)[:300], traceback=tb)
        else:
            where = _harness_frame(e.__traceback__)
            if isinstance(e, (AttributeError, TypeError, IndexError, KeyError)) and where:
                # the harness could not even READ what fairlearn returned (no .index, not subscriptable, key missing ...): on the
                # unchanged tree every result parses (any failure here would show as a non-zero exit there as well), so a result
                # that cannot be parsed is not in the documented form - reported as a refutation, with the traceback as witness.
                # Every other harness failure (OS, memory, import, timeout, assertion of the harness itself) stays inconclusive.
                ctx.violate("result_not_in_documented_form:%s@%s" % (type(e).__name__, where), message=str(e)[:300], traceback=tb)
            else:
                ctx.notes["harness_error"] = tb
    return ctx


def _harness_frame(tb) -> str:
    """'props/Cxx.py:func' of the innermost harness frame if the exception was raised while property code handled a result."""
    base = os.path.dirname(os.path.abspath(__file__)) + os.sep
    last = ""
    for fr in traceback.extract_tb(tb):
        if fr.filename.startswith(base + "props" + os.sep):
            last = "%s:%s" % (fr.filename[len(base):], fr.name)
    return last


def main():
    prop, tier, seed, shard, nshards, outfile, soft = sys.argv[1:8]
    seed, shard, nshards, soft = int(seed), int(shard), int(nshards), float(soft)
    t0 = time.time()
    mod = importlib.import_module("vf.props." + prop)
    import fairlearn

    loaded_from = os.path.dirname(os.path.abspath(fairlearn.__file__))
    out = {
        "shard": shard, "fairlearn": loaded_from, "planned": 0, "done": 0, "truncated": False,
        "by_class": {}, "events": {}, "sigs": [], "samples": {}, "violations": [], "harness_errors": [],
        "reach": {}, "wall_s": 0.0,
    }
    if loaded_from != os.path.join(REPO, "fairlearn"):
        out["harness_errors"].append("fairlearn imported from %s, expected %s" % (loaded_from, REPO))
        json.dump(out, open(outfile, "w"))
        return
    reach = _install_reach_probe()
    if hasattr(mod, "setup"):
        mod.setup(tier, seed)
    cases = mod.cases(tier, seed)
    mine = [c for i, c in enumerate(cases) if i % nshards == shard]
    # interleave the workload classes (deterministically) so that a soft-deadline truncation thins every class evenly
    import random as _random

    _random.Random(seed * 1000003 + shard).shuffle(mine)
    out["planned"] = len(mine)
    events = Counter()
    by_class = {}
    sigs = set()
    for cls, key in mine:
        if time.time() - t0 > soft:
            out["truncated"] = True
            break
        ctx = run_one(mod, cls, key, seed, tier)
        bc = by_class.setdefault(cls, {"cases": 0, "nontrivial": 0, "violating": 0})
        bc["cases"] += 1
        out["done"] += 1
        events.update(ctx.events)
        if ctx.nontrivial and ctx.sig is not None:
            bc["nontrivial"] += 1
            sigs.add(sig_hash([cls, ctx.sig]))
        if ctx.sample is not None and len(out["samples"].setdefault(cls, [])) < 2:
            out["samples"][cls].append(ctx.sample)
        if "harness_error" in ctx.notes and len(out["harness_errors"]) < 5:
            out["harness_errors"].append({"cls": cls, "key": jsonable(key), "trace": ctx.notes["harness_error"]})
        if ctx.violations:
            bc["violating"] += 1
            for v in ctx.violations:
                if len(out["violations"]) < 60:
                    out["violations"].append({"cls": cls, "key": jsonable(key), "mech": v["mech"], "detail": v["detail"]})
                else:
                    events["violations_not_listed"] += 1
    if hasattr(mod, "teardown"):
        mod.teardown()
    out["by_class"] = by_class
    out["events"] = dict(events)
    out["sigs"] = sorted(sigs)
    out["reach"] = dict(reach)
    out["wall_s"] = round(time.time() - t0, 2)
    with open(outfile, "w") as f:
        json.dump(out, f)


if __name__ == "__main__":
    main()
