"""Deliberate property-breaking source changes (each compiles; most pass the repository's tests).
id -> {props: [checks that must fire], what, edits: [(file, old, new)]}.  'rev_*' mutants revert a 'fix:' commit."""

MF = "fairlearn/metrics/_metric_frame.py"
DR = "fairlearn/metrics/_disaggregated_result.py"
BM = "fairlearn/metrics/_base_metrics.py"
FM = "fairlearn/metrics/_fairness_metrics.py"
DM = "fairlearn/metrics/_make_derived_metric.py"
AMF = "fairlearn/metrics/_annotated_metric_function.py"
BS = "fairlearn/metrics/_bootstrap.py"
UP = "fairlearn/reductions/_moments/utility_parity.py"
ER = "fairlearn/reductions/_moments/error_rate.py"
BGL = "fairlearn/reductions/_moments/bounded_group_loss.py"
MO = "fairlearn/reductions/_moments/moment.py"
LAG = "fairlearn/reductions/_exponentiated_gradient/_lagrangian.py"
EG = "fairlearn/reductions/_exponentiated_gradient/exponentiated_gradient.py"
GS = "fairlearn/reductions/_grid_search/grid_search.py"
GG = "fairlearn/reductions/_grid_search/_grid_generator.py"
CR = "fairlearn/preprocessing/_correlation_remover.py"
TO = "fairlearn/postprocessing/_threshold_optimizer.py"
TC = "fairlearn/postprocessing/_tradeoff_curve_utilities.py"
IT = "fairlearn/postprocessing/_interpolated_thresholder.py"
IV = "fairlearn/utils/_input_validation.py"
PE = "fairlearn/adversarial/_pytorch_engine.py"
AM = "fairlearn/adversarial/_adversarial_mitigation.py"

MUTANTS = {
    # ---------------------------------------------------------------- C14 / C11 / C03 base metrics
    "rev_fix_selection_rate_scalar": {
        "props": ["C14", "C11", "C03"], "what": "revert fix 43f7c08: weighted single-row selection_rate returns a 1-element array",
        "edits": [(BM, "        s_w = _convert_to_ndarray_and_squeeze(sample_weight).astype(np.float64)\n\n    return np.dot(selected, s_w) / s_w.sum()",
                   "        s_w = np.squeeze(np.asarray(sample_weight)).astype(np.float64)\n\n    return np.dot(selected, s_w) / s_w.sum()")]},
    "labels_not_reversed_for_low_pos_label": {
        "props": ["C14"], "what": "pos_label equal to the smaller label no longer moves it last",
        "edits": [(BM, "            unique_labels = list(reversed(unique_labels))", "            unique_labels = list(unique_labels)")]},
    "fnr_fpr_swapped_in_fpr": {
        "props": ["C14", "C03"], "what": "false_positive_rate unpacks the confusion matrix in the wrong order",
        "edits": [(BM, "    ).ravel()\n    return fpr", "    ).ravel()\n    return fnr")]},
    "selection_rate_compares_with_one": {
        "props": ["C14"], "what": "selection_rate ignores pos_label",
        "edits": [(BM, "selected = _convert_to_ndarray_and_squeeze(y_pred) == pos_label", "selected = _convert_to_ndarray_and_squeeze(y_pred) == 1")]},
    "tpr_drops_weights": {
        "props": ["C14", "C11", "C03"], "what": "true_positive_rate does not forward sample_weight",
        "edits": [(BM, '''    unique_labels = _get_labels_for_confusion_matrix(np.vstack((y_true, y_pred)), pos_label)
    tnr, fpr, fnr, tpr = skm.confusion_matrix(
        y_true,
        y_pred,
        sample_weight=sample_weight,
        labels=unique_labels,
        normalize="true",
    ).ravel()
    return tpr''', '''    unique_labels = _get_labels_for_confusion_matrix(np.vstack((y_true, y_pred)), pos_label)
    tnr, fpr, fnr, tpr = skm.confusion_matrix(
        y_true,
        y_pred,
        labels=unique_labels,
        normalize="true",
    ).ravel()
    return tpr''')]},
    "mean_prediction_normalised_by_n": {
        "props": ["C14", "C11"], "what": "mean_prediction divides by n instead of the weight sum",
        "edits": [(BM, "    return np.dot(y_p, s_w) / s_w.sum()", "    return np.dot(y_p, s_w) / len(y_p)")]},
    # ---------------------------------------------------------------- C03 fairness metrics
    "eo_mean_is_max": {
        "props": ["C03"], "what": "equalized_odds_difference agg='mean' returns the worst case",
        "edits": [(FM, "        return eo.difference(method=method).mean()", "        return eo.difference(method=method).max()")]},
    "equal_opportunity_on_fpr": {
        "props": ["C03"], "what": "equal_opportunity_ratio built on the false positive rate",
        "edits": [(FM, '''    tpr = MetricFrame(
        metrics=true_positive_rate,
        y_true=y_true,
        y_pred=y_pred,
        sensitive_features=sensitive_features,
        sample_params={"sample_weight": sample_weight},
    )
    result = tpr.ratio(method=method)''', '''    tpr = MetricFrame(
        metrics=false_positive_rate,
        y_true=y_true,
        y_pred=y_pred,
        sensitive_features=sensitive_features,
        sample_params={"sample_weight": sample_weight},
    )
    result = tpr.ratio(method=method)''')]},
    "dp_ratio_ignores_method": {
        "props": ["C03"], "what": "demographic_parity_ratio ignores method",
        "edits": [(FM, "    result = sel_rate.ratio(method=method)", "    result = sel_rate.ratio()")]},
    "eo_weights_only_for_tpr": {
        "props": ["C03", "C11"], "what": "equalized odds forwards sample_weight to TPR only",
        "edits": [(FM, '    sp = {"tpr": sw_dict, "fpr": sw_dict}', '    sp = {"tpr": sw_dict}')]},
    "derived_sample_params_bound": {
        "props": ["C03"], "what": "make_derived_metric treats the second sample parameter as a bound parameter",
        "edits": [(DM, "            if k in self._sample_param_names:", "            if k in self._sample_param_names[:1]:")]},
    # ---------------------------------------------------------------- C01 MetricFrame disaggregation
    "reindex_fill_zero": {
        "props": ["C01"], "what": "empty intersections filled with 0 instead of NaN",
        "edits": [(DR, "            return temp.reindex(index=all_indices)", "            return temp.reindex(index=all_indices, fill_value=0)")]},
    "no_reindex": {
        "props": ["C01"], "what": "empty intersections dropped (no reindex to the product)",
        "edits": [(DR, "            return temp.reindex(index=all_indices)", "            return temp")]},
    "params_positional_after_sort": {
        "props": ["C01", "C11"], "what": "sample params sliced from a sorted copy (rows mis-paired)",
        "edits": [(MF, "            all_data[col_name] = np.asarray(param_value)", "            all_data[col_name] = np.sort(np.asarray(param_value))")]},
    "overall_ignores_control": {
        "props": ["C01", "C02"], "what": "overall computed on all rows even with control features",
        "edits": [(DR, "            grouping_names=control_feature_names,\n        )\n\n        by_group", "            grouping_names=None,\n        )\n\n        by_group")]},
    "control_sensitive_order_reversed": {
        "props": ["C01"], "what": "by_group index levels: sensitive before control",
        "edits": [(DR, "grouping_names=(control_feature_names or []) + sensitive_feature_names", "grouping_names=sensitive_feature_names + (control_feature_names or [])")]},
    "series_feature_keeps_index": {
        "props": ["C01", "C12"], "what": "Series sensitive feature assigned with its own index (label alignment)",
        "edits": [(MF, "            all_data[sf.name_] = list(sf.raw_feature_)", "            all_data[sf.name_] = sf.raw_feature_")]},
    "rev_fix_single_row_ndarray_features": {
        "props": ["C01"], "what": "revert fix d326d07: length-1 ndarray features rejected",
        "edits": [(MF, "            f_arr = np.asarray(features, dtype=object)\n            if f_arr.ndim != 2:\n                f_arr = np.atleast_1d(np.squeeze(f_arr))\n",
                   "            f_arr = np.squeeze(np.asarray(features, dtype=object))\n")]},
    "kwargs_mapping_first_param_only": {
        "props": ["C01"], "what": "only the first sample parameter of a metric is forwarded",
        "edits": [(AMF, "        for func_arg_name, data_arg_name in self.kw_argument_mapping.items():", "        for func_arg_name, data_arg_name in list(self.kw_argument_mapping.items())[:1]:")]},
    # ---------------------------------------------------------------- C02 aggregates
    "to_overall_diff_no_abs": {
        "props": ["C02", "C03"], "what": "difference(to_overall) without abs()",
        "edits": [(DR, "            result = (mf - subtrahend).abs().max()", "            result = (mf - subtrahend).max()")]},
    "ratio_sub_one_ge": {
        "props": ["C02"], "what": "ratio_sub_one inverts from 0.5 upward",
        "edits": [(DR, "            if x > 1:\n                return 1 / x", "            if x > 0.5:\n                return 1 / x")]},
    "ratio_between_max_over_min": {
        "props": ["C02"], "what": "between_groups ratio under control features uses max/min",
        "edits": [(DR, '''            result = self.apply_grouping(
                "min", control_feature_names, errors=errors
            ) / self.apply_grouping("max", control_feature_names, errors=errors)''', '''            result = self.apply_grouping(
                "min" if not control_feature_names else "max", control_feature_names, errors=errors
            ) / self.apply_grouping("max" if not control_feature_names else "min", control_feature_names, errors=errors)''')]},
    "cache_coerce_serves_raise_for_group_max": {
        "props": ["C02"], "what": "group_max(errors='coerce') is served the group_min result",
        "edits": [(MF, "                    self._result_cache[k][err_string] = self._group(raw_result, v, err_string)",
                   "                    self._result_cache[k][err_string] = self._group(raw_result, v if err_string == 'raise' else 'min', err_string)")]},
    "difference_cache_method_swapped_for_coerce_dict": {
        "props": ["C02"], "what": "to_overall difference under control features broadcast without control alignment (uses global min)",
        "edits": [(DR, "            result = (mf - subtrahend).abs().groupby(level=control_feature_names).max()",
                   "            result = (mf - (subtrahend if method == 'to_overall' else subtrahend.min())).abs().groupby(level=control_feature_names).max()")]},
    # ---------------------------------------------------------------- C18 bootstrap
    "bootstrap_frac_09": {
        "props": ["C18"], "what": "resamples draw 90% of the rows",
        "edits": [(BS, "        frac=1,", "        frac=0.9,")]},
    "bootstrap_without_replacement": {
        "props": ["C18"], "what": "resamples drawn without replacement (permutations)",
        "edits": [(BS, "frac=1, replace=True,", "frac=1, replace=False,")]},
    "bootstrap_one_seed_for_all": {
        "props": ["C18"], "what": "the same per-sample seed is used for every resample",
        "edits": [(BS, "            random_state=rs[i],", "            random_state=rs[0],")]},
    "bootstrap_group_max_ci_uses_min": {
        "props": ["C18"], "what": "group_max_ci computed with min",
        "edits": [(MF, '        group_functions = {"group_min_ci": "min", "group_max_ci": "max"}', '        group_functions = {"group_min_ci": "min", "group_max_ci": "min"}')]},
    "bootstrap_quantiles_sorted": {
        "props": ["C18"], "what": "series quantiles returned in sorted-quantile order instead of the requested order",
        "edits": [(BS, "        result_np = np.quantile(samples, q=quantiles, axis=0)", "        result_np = np.quantile(samples, q=sorted(quantiles), axis=0)")]},
    "bootstrap_int_seed_ignored_when_zero": {
        "props": ["C18"], "what": "random_state=0 treated as None",
        "edits": [(BS, "    if random_state is None:", "    if not random_state:")]},
    # ---------------------------------------------------------------- C15 correlation remover
    "rev_fix_corr_remover_mean_axis": {
        "props": ["C15"], "what": "revert fix 2f447fb: scalar mean over all sensitive columns",
        "edits": [(CR, "X_sensitive.mean(axis=0)", "X_sensitive.mean()")]},
    "corr_no_centring": {
        "props": ["C15"], "what": "sensitive columns not centred in transform",
        "edits": [(CR, "        X_s_center = X_sensitive - self.sensitive_mean_\n        X_filtered", "        X_s_center = X_sensitive\n        X_filtered")]},
    "corr_alpha_swapped": {
        "props": ["C15"], "what": "alpha and 1-alpha swapped",
        "edits": [(CR, "        return self.alpha * X_filtered + (1 - self.alpha) * X_use", "        return (1 - self.alpha) * X_filtered + self.alpha * X_use")]},
    "corr_transform_recentres_on_new_data": {
        "props": ["C15"], "what": "transform centres with the new data's mean",
        "edits": [(CR, "        X_s_center = X_sensitive - self.sensitive_mean_\n        X_filtered", "        X_s_center = X_sensitive - X_sensitive.mean(axis=0)\n        X_filtered")]},
    "corr_split_sorted_ids": {
        "props": ["C15"], "what": "_split_X returns the sensitive columns in sorted position order (coefficients learned in id order)",
        "edits": [(CR, "        return X[:, non_sensitive], X[:, sensitive]", "        return X[:, non_sensitive], X[:, sorted(sensitive)] if hasattr(self, 'beta_') else X[:, sensitive]")]},
    # ---------------------------------------------------------------- C06 / C07 moments
    "rev_fix_event_control_nan": {
        "props": ["C06", "C07"], "what": "revert fix 4717c55: NaN events formatted into 'control=c,nan'",
        "edits": [(UP, "    if pd.notnull(control) and pd.notnull(event):", "    if pd.notnull(control):")]},
    "ratio_on_wrong_term": {
        "props": ["C06", "C07"], "what": "'+' entries apply the ratio to the event mean instead of the group mean",
        "edits": [(UP, """            self.U["+", e, g] = (
                event_select / self.prob_event[e]
                + (-self.ratio) * group_event_select / self.prob_group_event[e, g]
            )""", """            self.U["+", e, g] = (
                self.ratio * event_select / self.prob_event[e]
                + (-1) * group_event_select / self.prob_group_event[e, g]
            )""")]},
    "fprp_event_on_positives": {
        "props": ["C06"], "what": "FalsePositiveRateParity conditions on y == 1",
        "edits": [(UP, "        base_event = y_train.apply(lambda v: _LABEL + \"=\" + str(v)).where(y_train == 0)",
                   "        base_event = y_train.apply(lambda v: _LABEL + \"=\" + str(v)).where(y_train == 1)")]},
    "gamma_sign_flipped": {
        "props": ["C06", "C07"], "what": "gamma = +U^T pred / n",
        "edits": [(UP, "        g_signed = -self.U.T.dot(pred) / self.total_samples", "        g_signed = self.U.T.dot(pred) / self.total_samples")]},
    "bound_only_on_plus": {
        "props": ["C06"], "what": "bound() is 0 on the '-' entries",
        "edits": [(UP, "        return pd.Series(self.eps, index=self.index)", "        b = pd.Series(self.eps, index=self.index)\n        b['-'] = 0.0\n        return b")]},
    "bgl_mean_over_all_rows": {
        "props": ["C06"], "what": "BoundedGroupLoss.gamma: loss averaged over all rows for every group",
        "edits": [(BGL, "        return expect_attr[_LOSS]", "        return expect_attr[_LOSS] * 0 + self.tags[_LOSS].mean()")]},
    "error_rate_costs_swapped": {
        "props": ["C06", "C07"], "what": "ErrorRate.gamma applies fp cost to false negatives",
        "edits": [(ER, "        total_fn_cost = np.sum(signed_errors[signed_errors > 0] * self.fn_cost)", "        total_fn_cost = np.sum(signed_errors[signed_errors > 0] * self.fp_cost)")]},
    "square_loss_clips_prediction_only": {
        "props": ["C06"], "what": "SquareLoss does not clip y_true",
        "edits": [(BGL, """        return (
            np.clip(y_true, self.min_val, self.max_val)
            - np.clip(y_pred, self.min_val, self.max_val)
        ) ** 2""", """        return (
            y_true
            - np.clip(y_pred, self.min_val, self.max_val)
        ) ** 2""")]},
    # ---------------------------------------------------------------- C04 / C05 threshold optimizer
    "hull_strict_comparator": {
        "props": ["C05"], "what": "convex hull keeps collinear/dominated points only with strict '<'",
        "edits": [(TC, "            if (r1.y - r0.y) * (r2.x - r0.x) <= (r2.y - r0.y) * (r1.x - r0.x):", "            if (r1.y - r0.y) * (r2.x - r0.x) < (r2.y - r0.y) * (r1.x - r0.x) - 0.05:")]},
    "no_left_shift_at_grid_points": {
        "props": ["C04", "C05"], "what": "interpolation index not shifted left when a grid point coincides with a hull vertex",
        "edits": [(TC, "    indices[1:] = np.where(x_grid[1:] == x_values[indices[1:]], indices[1:] - 1, indices[1:])\n", "")]},
    "p0_p1_swapped": {
        "props": ["C04", "C05"], "what": "interpolation weights p0/p1 swapped",
        "edits": [(TC, "    p0 = x_distance_from_next_data_point / x_distance_between_data_points\n    p1 = 1 - p0", "    p1 = x_distance_from_next_data_point / x_distance_between_data_points\n    p0 = 1 - p1")]},
    "p_ignore_against_x": {
        "props": ["C05"], "what": "p_ignore numerator uses y - x_best instead of y - y_best (all groups collapse to the constant x_best: parity still holds, optimality does not)",
        "edits": [(TO, "                difference_from_best_predictor_for_sensitive_feature = roc_result.y - self._y_best", "                difference_from_best_predictor_for_sensitive_feature = roc_result.y - self._x_best")]},
    "group_weight_uniform": {
        "props": ["C05"], "what": "groups weighted 1/#groups instead of n_g/n",
        "edits": [(TO, "            p_sensitive_feature_value = len(group) / n", "            p_sensitive_feature_value = 1.0 / len(data_grouped_by_sensitive_feature)")]},
    "argmax_off_by_one": {
        "props": ["C05"], "what": "grid arg-max taken one index to the right (clipped)",
        "edits": [(TO, "        i_best = overall_tradeoff_curve.idxmax()", "        i_best = min(overall_tradeoff_curve.idxmax() + 1, len(self._x_grid) - 1)")]},
    "eo_pointwise_max_of_hulls": {
        "props": ["C04", "C05"], "what": "equalized odds uses the pointwise maximum of the ROC hulls",
        "edits": [(TO, "        self._y_min = np.amin(y_values, axis=1)", "        self._y_min = np.amax(y_values, axis=1)")]},
    "different_grid_index_per_group": {
        "props": ["C04"], "what": "each group takes the grid index of its own best point",
        "edits": [(TO, "            best_interpolation = self._tradeoff_curve[sensitive_feature_value].iloc[i_best]", "            best_interpolation = self._tradeoff_curve[sensitive_feature_value].iloc[self._tradeoff_curve[sensitive_feature_value]['y'].idxmax()]")]},
    "tie_grouping_isclose": {
        "props": ["C04", "C05"], "what": "scores within np.isclose are treated as tied when counting but not when placing the threshold",
        "edits": [(TC, "            while scores[i] == threshold:", "            while np.isclose(scores[i], threshold):")]},
    "rev_fix_eo_dataframe_y": {
        "props": ["C12"], "what": "revert fix b18a4c8: labels.sum().loc[0]",
        "edits": [(TO, "            n_positive = labels.sum().iloc[0]", "            n_positive = labels.sum().loc[0]")]},
    # ---------------------------------------------------------------- C10 randomised predictors
    "rev_fix_eg_regression_weight_alignment": {
        "props": ["C10"], "what": "revert fix c50e7e5: regression predict pairs columns 0..T-1 with weights_ in support order",
        "edits": [(EG, "p=self.weights_[pred.columns])", "p=self.weights_)")]},
    "rev_fix_predict_ge": {
        "props": ["C10"], "what": "revert fix 507e3cb: p >= u",
        "edits": [(EG, "return (positive_probs > random_state.rand(len(positive_probs))) * 1", "return (positive_probs >= random_state.rand(len(positive_probs))) * 1"),
                  (IT, "return (positive_probs > random_state.rand(len(positive_probs))) * 1", "return (positive_probs >= random_state.rand(len(positive_probs))) * 1")]},
    "eg_mixture_unaligned_dot": {
        "props": ["C10"], "what": "EG positive probability: predictor columns in id order dotted with weights_ in support order",
        "edits": [(EG, "            positive_probs = pred[self.weights_.index].dot(self.weights_).to_frame()", "            positive_probs = pd.DataFrame(pred.values.dot(self.weights_.values))")]},
    "thresholder_predict_inverted": {
        "props": ["C10"], "what": "InterpolatedThresholder.predict compares the draw with 1-p",
        "edits": [(IT, "return (positive_probs > random_state.rand(len(positive_probs))) * 1", "return (1 - positive_probs < random_state.rand(len(positive_probs))) * 1")]},
    "p_ignore_mixing_swapped": {
        "props": ["C04", "C05"], "what": "p_ignore and 1-p_ignore swapped in the pmf (still a valid pmf: C10 cannot see it)",
        "edits": [(IT, "                    interpolation.p_ignore * interpolation.prediction_constant\n                    + (1 - interpolation.p_ignore) * interpolated_predictions",
                   "                    (1 - interpolation.p_ignore) * interpolation.prediction_constant\n                    + interpolation.p_ignore * interpolated_predictions")]},
    "thresholder_rule_by_position": {
        "props": ["C10", "C13"], "what": "predict-time rule selected with the group labels of the fit-time order (first-seen order of the query)",
        "edits": [(IT, "            positive_probs[sensitive_feature_vector == a] = interpolated_predictions[\n                sensitive_feature_vector == a\n            ]",
                   "            _a = sorted(sensitive_feature_vector.unique())[min(list(self.interpolation_dict).index(a), sensitive_feature_vector.nunique() - 1)]\n            positive_probs[sensitive_feature_vector == _a] = interpolated_predictions[\n                sensitive_feature_vector == _a\n            ]")]},
    "predict_seed_ignored": {
        "props": ["C10"], "what": "EG.predict ignores random_state (fresh entropy)",
        "edits": [(EG, "        random_state = check_random_state(random_state)\n\n        if isinstance(self.constraints, ClassificationMoment):", "        random_state = check_random_state(None)\n\n        if isinstance(self.constraints, ClassificationMoment):")]},
    # ---------------------------------------------------------------- C16 adversarial update rule
    "rev_fix_torch_inner": {
        "props": ["C16"], "what": "revert fix 3f26296: projection coefficient via torch.inner",
        "edits": [(PE, "            proj = torch.sum(unit_dW_LA * dW_LP[i])", "            proj = torch.sum(torch.inner(unit_dW_LA, dW_LP[i]))")]},
    "rev_fix_tiny_dtype": {
        "props": ["C16"], "what": "revert fix 9293494: float64 tiny added to a float32 norm",
        "edits": [(PE, "torch.finfo(dW_LA[i].dtype).tiny", "torch.finfo(float).tiny")]},
    "adv_alpha_sign": {
        "props": ["C16"], "what": "+ alpha * dLA instead of - alpha * dLA",
        "edits": [(PE, "            p.grad = dW_LP[i] - (proj * unit_dW_LA) - (self.base.alpha * dW_LA[i])", "            p.grad = dW_LP[i] - (proj * unit_dW_LA) + (self.base.alpha * dW_LA[i])")]},
    "adv_projection_dropped": {
        "props": ["C16"], "what": "projection term dropped",
        "edits": [(PE, "            p.grad = dW_LP[i] - (proj * unit_dW_LA) - (self.base.alpha * dW_LA[i])", "            p.grad = dW_LP[i] - (self.base.alpha * dW_LA[i])")]},
    "adv_projection_unnormalised": {
        "props": ["C16"], "what": "projection uses dLA instead of the unit vector once",
        "edits": [(PE, "            p.grad = dW_LP[i] - (proj * unit_dW_LA) - (self.base.alpha * dW_LA[i])", "            p.grad = dW_LP[i] - (proj * dW_LA[i]) - (self.base.alpha * dW_LA[i])")]},
    "adv_adversary_not_stepped_on_own_gradient": {
        "props": ["C16"], "what": "adversary gradients zeroed before its optimiser step when alpha == 0",
        "edits": [(PE, "        self.predictor_optimizer.step()\n        self.adversary_optimizer.step()", "        self.predictor_optimizer.step()\n        if self.base.alpha == 0:\n            self.adversary_optimizer.zero_grad()\n        self.adversary_optimizer.step()")]},
    "adv_equalized_odds_y_not_passed": {
        "props": ["C16"], "what": "equalized odds: adversary sees Y_hat twice instead of (Y_hat, Y)",
        "edits": [(PE, "            Y_hat = torch.cat((Y_hat, Y), dim=1)", "            Y_hat = torch.cat((Y_hat, Y_hat.detach()), dim=1)")]},
    # ---------------------------------------------------------------- C17 adversarial schedule / predict
    "adv_slice_end_off_by_one": {
        "props": ["C17"], "what": "batch slice end one row short",
        "edits": [(AM, "                    min((batch + 1) * batch_size, X.shape[0]),", "                    min((batch + 1) * batch_size, X.shape[0]) - (1 if batch > 0 else 0),")]},
    "adv_last_partial_batch_dropped": {
        "props": ["C17"], "what": "floor instead of ceil: last partial batch dropped",
        "edits": [(AM, "        batches = ceil(X.shape[0] / batch_size)", "        batches = max(1, X.shape[0] // batch_size)")]},
    "adv_callbacks_before_max_iter_check": {
        "props": ["C17"], "what": "callbacks run before the max_iter check",
        "edits": [(AM, "                if self.max_iter != -1 and self.n_iter_ >= self.max_iter:\n                    return self\n\n                if self.callbacks_:", "                if self.callbacks_:")]},
    "adv_callback_step_from_zero": {
        "props": ["C17"], "what": "callbacks receive step numbers starting at 0",
        "edits": [(AM, "                            self, step=self.n_iter_, X=X, y=y, z=sensitive_features, pos_label=1", "                            self, step=self.n_iter_ - 1, X=X, y=y, z=sensitive_features, pos_label=1")]},
    "adv_binary_threshold_strict": {
        "props": ["C17"], "what": "pred > threshold instead of >=",
        "edits": [(AM, "        return (pred >= self.threshold_value).astype(float)", "        return (pred > self.threshold_value).astype(float)")]},
    "adv_stop_only_first_callback": {
        "props": ["C17"], "what": "only the first callback's return value can stop training",
        "edits": [(AM, "                        stop = stop or result", "                        stop = stop or (result and cb is self.callbacks_[0])")]},
    "rev_fix_adversarial_refit": {
        "props": ["C19"], "what": "revert fix aba7a15: refit continues training",
        "edits": [(AM, "        if not self.warm_start and hasattr(self, \"classes_\"):\n            # without warm_start, fit() discards what earlier calls learned\n            del self.classes_\n", "")]},
    # ---------------------------------------------------------------- C19 life cycle
    "rev_fix_gridsearch_returns_self": {
        "props": ["C19"], "what": "revert fix db4b0e6: GridSearch.fit returns None",
        "edits": [(GS, "            raise RuntimeError(\"Unsupported selection rule\")\n\n        return self\n", "            raise RuntimeError(\"Unsupported selection rule\")\n\n        return\n")]},
    "rev_fix_moment_reload": {
        "props": ["C19", "C06"], "what": "revert fix 2221f5a: a moment refuses a second load_data",
        "edits": [(MO, "        if sensitive_features is not None:\n            assert isinstance(sensitive_features, pd.Series)\n        self.X = X", "        assert self.data_loaded is False, \"data can be loaded only once\"\n        if sensitive_features is not None:\n            assert isinstance(sensitive_features, pd.Series)\n        self.X = X")]},
    "to_reuses_fitted_estimator": {
        "props": ["C19"], "what": "ThresholdOptimizer keeps estimator_ from an earlier fit instead of cloning and refitting",
        "edits": [(TO, "            self.estimator_ = clone(self.estimator)\n            self.estimator_.fit(X, y, **kwargs)", "            if not hasattr(self, \"estimator_\"):\n                self.estimator_ = clone(self.estimator)\n                self.estimator_.fit(X, y, **kwargs)")]},
    "eg_predict_caches_pmf": {
        "props": ["C19"], "what": "EG.predict caches the pmf of the first query in fitted state",
        "edits": [(EG, "            positive_probs = self._pmf_predict(X)[:, 1]\n", "            if not hasattr(self, \"_pp\") or len(self._pp) != len(X):\n                self._pp = self._pmf_predict(X)[:, 1]\n            positive_probs = self._pp\n")]},
    "eg_lagrangian_state_survives_refit": {
        "props": ["C19"], "what": "EG keeps the EG multiplier history of the previous fit (lambda_vecs_EG_ not reset)",
        "edits": [(EG, "        self.lambda_vecs_EG_ = pd.DataFrame()\n", "        self.lambda_vecs_EG_ = getattr(self, \"lambda_vecs_EG_\", pd.DataFrame())\n")]},
    "corr_lookup_only_on_first_fit": {
        "props": ["C19", "C15"], "what": "CorrelationRemover builds its name->position lookup only on the first fit",
        "edits": [(CR, "        self._check_sensitive_features_in_X(X)\n        self._create_lookup(X)\n", "        self._check_sensitive_features_in_X(X)\n        if first_call:\n            self._create_lookup(X)\n")]},
    "gridsearch_appends_to_previous_fit": {
        "props": ["C19"], "what": "GridSearch.fit keeps the predictors of a previous fit",
        "edits": [(GS, "        self.predictors_ = []\n", "        self.predictors_ = getattr(self, \"predictors_\", [])\n")]},
    # ---------------------------------------------------------------- C20 rejections
    "no_consistent_length_for_control_features": {
        "props": ["C20"], "what": "control features are not length-checked against X in the shared validation",
        "edits": [(IV, "        check_consistent_length(X, control_features)\n", "")]},
    "binary_labels_not_enforced_in_fprp": {
        "props": ["C20"], "what": "FalsePositiveRateParity does not enforce binary labels",
        "edits": [(UP, """            enforce_binary_labels=True,
            sensitive_features=sensitive_features,
            control_features=control_features,
        )

        # The `where` clause is used to put `pd.nan` on all values where `Y!=0`.""", """            enforce_binary_labels=False,
            sensitive_features=sensitive_features,
            control_features=control_features,
        )

        # The `where` clause is used to put `pd.nan` on all values where `Y!=0`.""")]},
    "degenerate_guard_only_positives": {
        "props": ["C20"], "what": "degenerate-label guard only checks for missing positives",
        "edits": [(TC, "    if n_positive == 0 or n_negative == 0:", "    if n_positive == 0:")]},
    "duplicate_name_check_removed": {
        "props": ["C20"], "what": "MetricFrame duplicate feature name check skipped for control features",
        "edits": [(MF, "        if self._cf_names:\n            namelist = namelist + self._cf_names\n        for name in namelist:", "        for name in namelist:")]},
    "ratio_check_only_nonpositive": {
        "props": ["C20"], "what": "ratio_bound > 1 accepted",
        "edits": [(UP, "            if not (0 < ratio_bound <= 1):", "            if not (0 < ratio_bound):")]},
    "metricframe_no_length_check_on_predictions": {
        "props": ["C20"], "what": "MetricFrame truncates y_pred to the length of y_true instead of checking",
        "edits": [(MF, "        check_consistent_length(y_true, y_pred)\n\n        y_t = _convert_to_ndarray_and_squeeze(y_true)\n        y_p = _convert_to_ndarray_and_squeeze(y_pred)",
                   "        y_t = _convert_to_ndarray_and_squeeze(y_true)\n        y_p = _convert_to_ndarray_and_squeeze(y_pred)[: len(y_t)]\n        if len(y_p) < len(y_t):\n            y_t = y_t[: len(y_p)]")]},
    "series_name_int_accepted": {
        "props": ["C20"], "what": "non-string Series names are converted with str() instead of rejected",
        "edits": [(  "fairlearn/metrics/_group_feature.py", "                else:\n                    msg = _SERIES_NAME_NOT_STRING.format(", "                elif False:\n                    msg = _SERIES_NAME_NOT_STRING.format(")]},
    "gridsearch_predict_no_fitted_check": {
        "props": ["C20"], "what": "GridSearch.predict_proba lacks check_is_fitted (AttributeError instead of NotFittedError)",
        "edits": [(GS, "        check_is_fitted(self)\n        return self.predictors_[self.best_idx_].predict_proba(X)", "        return self.predictors_[self.best_idx_].predict_proba(X)")]},
    "to_objective_table_extended": {
        "props": ["C20"], "what": "equalized odds silently accepts selection_rate as objective",
        "edits": [(TO, 'OBJECTIVES_FOR_EQUALIZED_ODDS = {\n    "accuracy_score",', 'OBJECTIVES_FOR_EQUALIZED_ODDS = {\n    "selection_rate",\n    "accuracy_score",')]},
    # ---------------------------------------------------------------- reverts of the later fixes
    "rev_fix_dummy_sample_weight_name": {
        "props": ["C09", "C08"], "what": "revert fix 7d64327: DummyClassifier fallback fitted with the user's sample_weight_name",
        "edits": [(GS, "                fit_params = {}\n", "                pass\n"),
                  (LAG, "            fit_params = {}\n", "            pass\n")]},
    "rev_fix_dummy_zero_weights": {
        "props": ["C09"], "what": "revert the later fix: the DummyClassifier fallback is fitted with the (possibly all-zero) weights as plain sample_weight",
        "edits": [(GS, "                fit_params = {}\n", "                fit_params = {\"sample_weight\": weights}\n")]},
    "rev_fix_dict_series_alignment": {
        "props": ["C12"], "what": "revert fix 131849b: dict-of-Series features aligned on index labels by pd.DataFrame.from_dict",
        "edits": [(MF, "                k: v.to_numpy() if isinstance(v, pd.Series) else v for k, v in features.items()", "                k: v for k, v in features.items()")]},
    "rev_fix_thresholder_float32_scores": {
        "props": ["C04", "C10"], "what": "revert fix 2e32ab5: probability vector keeps the dtype of the scores (float32 scores raise in predict)",
        "edits": [(IT, "        positive_probs = 0.0 * base_predictions_vector.astype(np.float64)", "        positive_probs = 0.0 * base_predictions_vector")]},
    "rev_fix_error_rate_gamma_dtype": {
        "props": ["C06"], "what": "revert fix cd8082c (ErrorRate): labels minus predictions in their own dtype (uint8 wraps)",
        "edits": [(ER, "        pred = np.squeeze(np.asarray(predictor(self.X), dtype=np.float64))\n        signed_errors = self.tags[_LABEL].astype(np.float64) - pred\n",
                   "        pred = np.squeeze(np.asarray(predictor(self.X)))\n        signed_errors = self.tags[_LABEL] - pred\n")]},
    "rev_fix_loss_gamma_dtype": {
        "props": ["C06"], "what": "revert fix cd8082c (loss moments): the loss is evaluated on labels / predictions in their own dtype",
        "edits": [(BGL, "            self.tags[_LABEL].astype(np.float64), self.tags[_PREDICTION].astype(np.float64)\n", "            self.tags[_LABEL], self.tags[_PREDICTION]\n")]},
    "rev_fix_selection_rate_weight_dtype": {
        "props": ["C11"], "what": "revert fix 9edbd66: selection_rate accumulates the weights in their own (narrow integer) dtype",
        "edits": [(BM, "        s_w = _convert_to_ndarray_and_squeeze(sample_weight).astype(np.float64)\n\n    return np.dot(selected, s_w) / s_w.sum()",
                   "        s_w = _convert_to_ndarray_and_squeeze(sample_weight)\n\n    return np.dot(selected, s_w) / s_w.sum()")]},
    "rev_fix_error_rate_parity_uint8": {
        "props": ["C06"], "what": "revert fix 1283ce5: ErrorRateParity utilities built in the labels' own dtype",
        "edits": [(UP, "        utilities = np.vstack([y_float, 1 - y_float]).T", "        utilities = np.vstack([y_train, 1 - y_train]).T")]},
    "rev_fix_gamma_series_alignment": {
        "props": ["C06", "C12"], "what": "revert fix eb0813d (parity moments): a pandas prediction is aligned by index label",
        "edits": [(UP, "        predictions = np.squeeze(np.asarray(predictor(self.X)))", "        predictions = predictor(self.X)\n        if isinstance(predictions, np.ndarray):\n            predictions = np.squeeze(predictions)")]},
    "rev_fix_eg_series_alignment": {
        "props": ["C10", "C12"], "what": "revert fix 7222c70: EG._pmf_predict aligns a pandas-aware estimator's output by index label",
        "edits": [(EG, "                pred[t] = np.asarray(self._hs[t](X))", "                pred[t] = self._hs[t](X)")]},
}
