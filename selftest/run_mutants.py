#!/venv/bin/python
"""Self-test: apply each mutant (a small source change that breaks a property) to a scratch copy of the
repository's package and confirm the registered check fires (exit 1) within its quick budget.

usage: run_mutants.py [--only ID[,ID]] [--prop Cxx] [--tier quick]    results -> selftest/results.json
Mutants live in selftest/mutants.py; seeded changes from sub-agents live in /verif/seeded/<id>/patch.diff."""
import importlib.util, json, os, shutil, subprocess, sys, tempfile, time

HERE = os.path.dirname(os.path.abspath(__file__))
VERIF = os.path.dirname(HERE)
REPO = os.environ.get("VERIF_REPO", "/repo")


def load_mutants():
    spec = importlib.util.spec_from_file_location("mutants", os.path.join(HERE, "mutants.py"))
    m = importlib.util.module_from_spec(spec)
    spec.loader.exec_module(m)
    return m.MUTANTS


def run_check(prop, tier, scratch, extra_env=None):
    env = dict(os.environ)
    env.update({"VERIF_REPO": scratch, "VERIF_EVIDENCE_DIR": os.path.join(scratch, "_evidence"),
                "VERIF_REPLAY_DIR": os.path.join(scratch, "_replays")})
    env.update(extra_env or {})
    t0 = time.time()
    p = subprocess.run([os.path.join(VERIF, "check"), prop, tier], cwd=VERIF, env=env, stdout=subprocess.PIPE,
                       stderr=subprocess.STDOUT, text=True)
    lines = [l for l in p.stdout.splitlines() if l.startswith(("VIOLATION", "  mechanism", "INCONCLUSIVE"))]
    return p.returncode, round(time.time() - t0, 1), lines[:4]


def main():
    args = sys.argv[1:]
    only = set(args[args.index("--only") + 1].split(",")) if "--only" in args else None
    propf = args[args.index("--prop") + 1] if "--prop" in args else None
    tier = args[args.index("--tier") + 1] if "--tier" in args else "quick"
    results = {}
    respath = os.path.join(HERE, "results.json")
    if os.path.exists(respath):
        results = json.load(open(respath))
    for mid, m in load_mutants().items():
        if only and mid not in only:
            continue
        if propf and propf not in m["props"]:
            continue
        scratch = tempfile.mkdtemp(prefix="vf_mut_")
        try:
            shutil.copytree(os.path.join(REPO, "fairlearn"), os.path.join(scratch, "fairlearn"),
                            ignore=shutil.ignore_patterns("__pycache__"))
            ok = True
            for f, old, new in m["edits"]:
                path = os.path.join(scratch, f)
                s = open(path).read()
                if s.count(old) != 1:
                    print("MUTANT %s: pattern count %d in %s" % (mid, s.count(old), f))
                    ok = False
                    break
                open(path, "w").write(s.replace(old, new))
            if not ok:
                results[mid] = {"status": "pattern_not_found"}
                continue
            for prop in m["props"]:
                if propf and prop != propf:
                    continue
                rc, wall, lines = run_check(prop, tier, scratch)
                status = "caught" if rc == 1 else ("inconclusive" if rc == 2 else "MISSED")
                results["%s@%s" % (mid, prop)] = {"status": status, "rc": rc, "wall_s": wall, "tier": tier, "what": m["what"], "lines": lines}
                print("%-34s %-4s %-12s %5.1fs %s" % (mid, prop, status, wall, (lines[1] if len(lines) > 1 else (lines[0] if lines else ""))[:150]))
        finally:
            shutil.rmtree(scratch, ignore_errors=True)
        json.dump(results, open(respath, "w"), indent=1, sort_keys=True)


main()
