#!/venv/bin/python
"""Run the repository's baseline suite with the verification guard OFF and compare with
/root/.vp/BASELINE.json (every stable_pass test must still pass).
Usage: baseline_off.py [--jobs N]   (N>1 runs the test files as N parallel pytest processes;
the registered baseline_off_cmd is the plain sequential pytest command)."""
import glob, json, os, subprocess, sys, tempfile, xml.etree.ElementTree as ET
from concurrent.futures import ThreadPoolExecutor

def main():
    repo = os.environ.get("VERIF_REPO", "/repo")
    jobs = int(sys.argv[sys.argv.index("--jobs") + 1]) if "--jobs" in sys.argv else 1
    env = dict(os.environ)
    env.pop("FAIRLEARN_VERIF", None)
    out = tempfile.mkdtemp(prefix="vf_baseline_")
    files = sorted(glob.glob(os.path.join(repo, "test", "**", "test_*.py"), recursive=True))
    units = [[f] for f in files] if jobs > 1 else [["test"]]
    def run(i):
        junit = os.path.join(out, "junit%d.xml" % i)
        cmd = ["/venv/bin/python", "-m", "pytest", "-ra", "-q", "-p", "no:cacheprovider", "--timeout=900",
               "--continue-on-collection-errors", "--junitxml=" + junit] + units[i]
        p = subprocess.run(cmd, cwd=repo, env=env, stdout=subprocess.PIPE, stderr=subprocess.STDOUT, text=True)
        return junit, p.stdout.splitlines()[-1:] 
    with ThreadPoolExecutor(max_workers=jobs) as ex:
        res = list(ex.map(run, range(len(units))))
    passed = set()
    for junit, tail in res:
        if not os.path.exists(junit):
            print("no junit for", junit, tail); continue
        for tc in ET.parse(junit).getroot().iter("testcase"):
            bad = any(ch.tag in ("failure", "error", "skipped") for ch in tc)
            if not bad:
                passed.add(("%s::%s" % (tc.get("classname"), tc.get("name"))).replace(" ", ""))
    base = json.load(open("/root/.vp/BASELINE.json"))
    stable = [s.replace(" ", "") for s in base["stable_pass"]]
    missing = [s for s in stable if s not in passed]
    print("baseline stable_pass=%d passed_now=%d missing=%d" % (len(stable), len(passed), len(missing)))
    for m in missing[:40]:
        print("MISSING", m)
    subprocess.run(["rm", "-rf", out])
    sys.exit(1 if missing else 0)

main()
