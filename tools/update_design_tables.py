#!/venv/bin/python
"""Rewrites the generated tables of DESIGN.md (between the BEGIN/END markers) from selftest/results.json and seeded/*/meta.json."""
import json, os, re

VERIF = os.path.dirname(os.path.dirname(os.path.abspath(__file__)))


def seeded_table():
    rows = ["| seeded change | property | what it needs to manifest (from the sub-agent's note) | checks run (quick tier) |", "|---|---|---|---|"]
    for name in sorted(os.listdir(os.path.join(VERIF, "seeded"))):
        mp = os.path.join(VERIF, "seeded", name, "meta.json")
        if not os.path.exists(mp):
            continue
        m = json.load(open(mp))
        note = ""
        np_ = os.path.join(VERIF, "seeded", name, "notes.md")
        if os.path.exists(np_):
            txt = open(np_).read()
            mm = re.search(r"(?is)(manifest[^\n]*\n?.{0,260})", txt)
            note = (mm.group(1) if mm else txt[:260]).replace("\n", " ").replace("|", "/")[:260]
        checks = ", ".join("%s: **%s**" % (c, v["status"]) for c, v in sorted(m.get("checks", {}).items()))
        rows.append("| %s | %s | %s | %s |" % (name, m["property"], note, checks))
    return "\n".join(rows)


def mutant_table():
    p = os.path.join(VERIF, "selftest", "results.json")
    if not os.path.exists(p):
        return "(no self-test results yet)"
    res = json.load(open(p))
    rows = ["| mutant | check | result | what it changes |", "|---|---|---|---|"]
    for k in sorted(res):
        v = res[k]
        if "@" not in k:
            continue
        mid, prop = k.split("@")
        rows.append("| %s | %s | %s | %s |" % (mid, prop, v["status"], v.get("what", "").replace("|", "/")))
    return "\n".join(rows)


def main():
    p = os.path.join(VERIF, "DESIGN.md")
    s = open(p).read()
    for tag, fn in (("SEEDED", seeded_table), ("MUTANTS", mutant_table)):
        b, e = "<!-- BEGIN %s TABLE -->" % tag, "<!-- END %s TABLE -->" % tag
        if b in s and e in s:
            s = s[: s.index(b) + len(b)] + "\n" + fn() + "\n" + s[s.index(e):]
    open(p, "w").write(s)
    print("DESIGN.md tables updated")


main()
