#!/bin/bash
# usage: tools/sweep.sh <tier> <seed> [<seed> ...]  -> one summary line per (check, seed); evidence/replays go to scratch dirs
tier=$1; shift
for seed in "$@"; do
  for p in ${SWEEP_PROPS:-C01 C02 C03 C04 C05 C06 C07 C08 C09 C10 C11 C12 C13 C14 C15 C16 C17 C18 C19 C20}; do
    out=$(VERIF_SEED=$seed VERIF_EVIDENCE_DIR=/tmp/vf_sweep_ev VERIF_REPLAY_DIR=$PWD/replays_sweep ./check $p $tier 2>&1)
    rc=$?
    echo "SWEEP tier=$tier seed=$seed $p rc=$rc :: $(echo "$out" | head -1 | cut -c1-160)"
    if [ $rc -ne 0 ]; then echo "$out" | grep -E "^(VIOLATION|  mechanism|INCONCLUSIVE)" | cut -c1-900; fi
  done
done
