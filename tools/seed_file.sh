#!/bin/bash
# usage: seed_file.sh <round-dir e.g. /tmp/seed4> <suffix e.g. 4> <prop> <tests comma list> [extra seed_verify args]
# copies the sub-agent's A/B outputs to a staging directory with the round suffix and runs tools/seed_verify.py on both (in parallel).
R=$1; S=$2; P=$3; T=$4; shift 4
D=/tmp/w/sv$S/$P; mkdir -p $D
for L in A B; do cp $R/$P/_out/$L.diff $D/${L}${S}.diff; cp $R/$P/_out/${L}_demo.py $D/${L}${S}_demo.py; cp $R/$P/_out/$L.md $D/${L}${S}.md; done
cd "$(dirname "$0")/.."
for L in A B; do tools/seed_verify.py $P ${L}$S $D --tests $T "$@" > /tmp/w/sv$S/$P-${L}$S.log 2>&1 & done
wait
for L in A B; do echo "$P-${L}$S: $(grep -E '"confirmed"|"status"|NOT CONF' /tmp/w/sv$S/$P-${L}$S.log | tr -d ' \n')"; done
