#!/venv/bin/python
"""Regenerates /verif/MANIFEST.json from the table below (kept in one place so it stays valid)."""
import json
import os
import subprocess

HERE = os.path.dirname(os.path.dirname(os.path.abspath(__file__)))

# id -> (technique, level text, level note, design ref)
CHECKS = {
    "C01": ("runtime monitor: recording metric on id-valued data (unambiguous history) + row-partition reference model",
            "Exploration: every by_group/overall cell of generated MetricFrames is traced back, through a recording metric "
            "fairlearn itself invokes, to the exact rows and parameter slices it was computed from and compared with a "
            "pure-python partition of the rows; index compared as a set with the observed values / their product.",
            "Holds on the generated layouts only (n<=40, <=3 sensitive x <=2 control features, one value type per column, "
            "no NaN feature values); trusted: pandas/numpy, the reference partition.", "3/C01"),
    "C02": ("runtime monitor: public aggregate methods vs executable reference algebra on prescribed tables + icontract postcondition",
            "Exploration: arbitrary by_group/overall tables are forced through a table metric and every aggregate "
            "(group_min/max, difference, ratio x method x errors x callable/dict x control features) is compared with "
            "the stated formula; stated inequalities asserted on every frame.",
            "Scalar metrics only; IEEE NaN policy for 0/0; trusted: reference algebra in refs/rates.py.", "3/C02"),
    "C03": ("runtime oracle: first-principles row-counting reference vs the named/generated fairness metrics, exhaustive small datasets + random weighted",
            "Exploration with an exhaustive sub-space: all datasets (labels, predictions, set partition into groups) up to "
            "n=3 (quick) / n=4 (thorough) rows and sampled larger/weighted ones; every named function x method x agg and "
            "every generated metric compared with values computed from the rows.",
            "Binary {0,1} labels, positive weights; sklearn base metrics are trusted on the per-group slices; 0/0 ratios "
            "may be NaN or skipped.", "3/C03"),
    "C04": ("runtime oracle: expected per-group constraint metrics recomputed from _pmf_predict on the training rows; exhaustive small multisets + random/tied/adjacent scores",
            "Exploration with an exhaustive sub-space: ThresholdOptimizer is fitted on every multiset of (group,label,score-level) "
            "rows up to a small size and on random datasets (2..5 groups, ties, grid points on hull vertices); the expected "
            "constraint metric per group under the fitted randomised rule must coincide across groups and lie on the grid.",
            "Every group contains both labels (precondition of the property); finite scores; tolerance 1e-9.", "3/C04"),
    "C05": ("runtime oracle: brute-force concave envelopes / LP over per-group threshold mixtures vs the fitted rule's expected objective",
            "Exploration: the objective value attained by the fitted rule (from _pmf_predict on the training rows) is compared "
            "with the optimum of the stated family computed independently (all threshold rules enumerated per group, envelope "
            "by brute force over point pairs, cross-checked by scipy linprog on a sample).",
            "Group sizes limited so the enumeration stays small; objective values compared (ties in the arg-max are fine).", "3/C05"),
    "C06": ("runtime oracle: Moment.index/gamma/bound after load_data vs a probabilistic-definition reference, label-agnostic event matching",
            "Exploration: for each generated dataset (2..4 groups, optional control strata, absent combinations) and each of "
            "the 5 parity moments x bound types, gamma on hard and soft predictors, the index structure and bound() are "
            "compared with the definition; BoundedGroupLoss/ErrorRate gamma vs definitions; r=1 '+' entries vs MetricFrame.",
            "Binary labels; predictions in [0,1]; event labels are matched by fingerprints, not by their string form.", "3/C06"),
    "C07": ("runtime oracle: linearity basis sweep (unit multipliers x unit predictors) on loaded moments + recording base learner for the relabel/reweight history",
            "Exploration: gamma/signed_weights identity checked on a basis (covers all lambda and h by linearity, affinity "
            "verified), loss-moment identity, project_lambda non-negativity and Lagrangian monotonicity; the (y,w) pairs "
            "that ExponentiatedGradient/GridSearch hand to a recording learner are compared with 1[w>0], |w|.",
            "n<=25 per dataset; reference moments from refs/moments.py.", "3/C07"),
    "C08": ("runtime oracle: exact cost-sensitive learner over an enumerable hypothesis class + independent LP; certified gap vs true duality gap",
            "Exploration: ExponentiatedGradient is run with an exact learner over a finite class; best_gap_ is compared with "
            "the true duality gap of (Q, lambda-hat) recomputed by enumeration, the error and constraint-violation "
            "consequences are checked against an independent LP optimum, weights_ validity and early-stop rule.",
            "Finite hypothesis class containing both constants; feasibility decided by the reference LP (HiGHS).", "3/C08"),
    "C09": ("runtime oracle: exact/recording learner + reference Lagrangian minimum per grid point; recomputed objectives/gammas/arg-min",
            "Exploration: GridSearch fitted with an exact learner; lambda grid shape/sign/norm/distinctness, best-response "
            "optimality per column by enumeration, recorded objectives_/gammas_ vs recomputed, arg-min selection and "
            "predict delegation are checked.",
            "Finite hypothesis class; both labels present in every group for the strict distinctness class.", "3/C09"),
    "C10": ("runtime monitor: _pmf_predict / predict under many seeds + injected extreme RandomState; mixture and frequency oracles",
            "Exploration + RNG fault injection: pmf validity, EG mixture recomputed from predictors_/weights_, thresholder "
            "dependence on (score, group) only and monotonicity, predict label set, Hoeffding-bounded frequency test over "
            "seeds, reproducibility, and determinism at p in {0,1} under extreme uniform draws (0.0 and 1-2^-53).",
            "Frequency test has total false-alarm probability <= 1e-9 per run; no assumption on RNG call order.", "3/C10"),
    "C11": ("metamorphic runtime oracle: weight k vs k copies, scaling, None vs ones - base metrics, MetricFrame cells, named fairness metrics",
            "Exploration: each generated dataset is evaluated in the weighted form and in the row-repeated form and the "
            "results (value and scalar/array shape) must agree, per group inside MetricFrame including single weighted rows.",
            "Integer weights 1..5 and positive real scalings; tolerance 1e-11 relative.", "3/C11"),
    "C12": ("metamorphic runtime oracle: same logical dataset through every container type / hostile pandas index / row permutation / label bijection",
            "Exploration: baseline run on plain ndarrays vs variants where every argument arrives in a different container "
            "with a different hostile index; public results of MetricFrame, fairness metrics, moments, EG, GridSearch and "
            "ThresholdOptimizer must be identical.",
            "X only as ndarray/DataFrame; deterministic base learners.", "3/C12"),
    "C13": ("runtime monitor: group partition recovered through public gamma/index/interpolation_dict/_pmf_predict vs tuple-equality partition",
            "Exploration: feature tables over alphabets with separator/escape characters built so that naive joins collide; "
            "the partition induced by moments and ThresholdOptimizer must equal the tuple partition and MetricFrame's.",
            "String-valued columns only; NUL/trailing-whitespace values not generated.", "3/C13"),
    "C14": ("runtime oracle: weighted confusion counting reference vs the seven base metrics over all encodings, exhaustive small vectors + random weighted",
            "Exploration with an exhaustive sub-space: all label/prediction vectors up to length 4 (quick) / 6 (thorough) "
            "under 10 encodings, plus random weighted vectors; value, scalar-ness, range, complement identities and "
            "pos_label role exchange are checked on every call.",
            "Positive finite weights; at most two label values; trusted: the counting reference.", "3/C14"),
    "C15": ("runtime oracle: least-squares residual reference (per-column centring, lstsq, alpha blend) vs fit_transform/transform; covariance monitor",
            "Exploration: random matrices (1..4 sensitive, 1..5 other columns, different means/scales, collinear/constant "
            "sensitive columns, ids by position or name, alpha in {0,0.3,1}); output compared with the reference and "
            "alpha=1 covariance with every sensitive column must vanish; transform on new data = learned affine map.",
            "Tolerance 1e-8 x scale; rank-deficient sensitive blocks compared on training data + affinity only.", "3/C15"),
    "C16": ("runtime monitor: parameter snapshots of harness-owned torch modules before/after one SGD step vs autograd reference of the documented update",
            "Exploration: for random architectures/batches/alpha/lr the observed parameter change divided by lr is compared "
            "per tensor with dLP - proj_{dLA}(dLP) - alpha*dLA (Frobenius projection), orthogonality asserted, adversary "
            "step = plain gradient. PyTorch engine only.",
            "TensorFlow engine not executable here (TensorFlow/Keras absent, not installable); float32 tolerances.", "3/C16"),
    "C17": ("runtime monitor: recording torch module + recording callback -> offline trace-specification check of the batch/step/callback schedule; differential partial_fit history",
            "Exploration: the sequence of training batches (row ids), step numbers seen by callbacks, n_iter_, early stop and "
            "max_iter handling are checked against the documented schedule; final parameters compared with an identically "
            "configured estimator driven through partial_fit; predict vs threshold/arg-max/raw rule.",
            "shuffle=False; first slice contains every class (documented requirement); PyTorch engine.", "3/C17"),
    "C18": ("runtime monitor: recording metric on id-valued data reveals every bootstrap resample's exact row multiset; structural/ordering/reproducibility oracles on *_ci",
            "Exploration: resample composition (n rows, with replacement, from the data, differing between resamples, "
            "identical for equal seeds) observed directly; *_ci results compared structurally with the point estimates; "
            "quantile monotonicity; constant-metric and positive-width checks.",
            "False-alarm probability of the 'resamples differ' check computed (<1e-12), not assumed.", "3/C18"),
    "C19": ("runtime monitor: all call sequences up to length 3/4 over {fit(D1), fit(D2), predict, pickle, clone} vs fresh-estimator reference histories",
            "Exploration (history enumeration): every operation sequence is executed on each estimator class and the observed "
            "history (fit return value, get_params, model fingerprint) is compared with that of fresh estimators.",
            "Deterministic base learners and fixed random_state; differential oracle.", "3/C19"),
    "C20": ("runtime monitor: defect-injection matrix (entry point x argument x container x defect) recording outcome and rejecting frame",
            "Exploration/fault enumeration over the input-defect matrix stated by the property: every cell must raise; "
            "predict-before-fit must raise NotFittedError.",
            "Scope of 'out-of-range bounds' = documented ranges only (ratio_bound in (0,1]).", "3/C20"),
}

PENDING_REASON = "check not built yet in this round (work in progress; the design in DESIGN.md section 3 applies)"


def main():
    props = [json.loads(l) for l in open(os.path.join(HERE, "properties.jsonl"))]
    checks, na = [], []
    for p in props:
        pid = p["id"]
        if pid in CHECKS and os.path.exists(os.path.join(HERE, "vf", "props", pid + ".py")):
            tech, text, note, ref = CHECKS[pid]
            checks.append({
                "property_id": pid,
                "quick_cmd": "./check %s quick" % pid,
                "thorough_cmd": "./check %s thorough" % pid,
                "evidence_file": "/verif/evidence/%s.json" % pid,
                "replay_cmd_template": "./check %s quick --replay {path}" % pid,
                "engine": "vf",
                "level_claimed": {"category": "exploration", "text": text, "design_ref": "DESIGN.md section " + ref},
                "level_note": note,
                "technique": tech,
            })
        else:
            na.append({"property_id": pid, "reason": PENDING_REASON})
    try:
        commits = subprocess.run(["git", "-C", "/repo", "log", "--format=%H %s"], capture_output=True, text=True).stdout.splitlines()
    except Exception:  # noqa: BLE001
        commits = []
    hook_commits = [c.split()[0] for c in commits if " hook:" in c or c.split(" ", 1)[1].startswith("hook:")]
    man = {
        "version": 1,
        "setup_cmd": "./setup.sh",
        "hooks": {
            "guard": "FAIRLEARN_VERIF",
            "enable": "no in-repo hooks are needed: monitors are user-supplied callables (metrics, base learners, torch modules, "
                      "callbacks, RandomState) and icontract wrappers attached from the harness; checks import fairlearn from "
                      "${VERIF_REPO:-/repo} via PYTHONPATH and export FAIRLEARN_VERIF=1 (unused by the repository)",
            "baseline_off_cmd": "cd /repo && env -u FAIRLEARN_VERIF /venv/bin/python -m pytest -ra -q -p no:cacheprovider --timeout=900 --continue-on-collection-errors",
            "source_commits": hook_commits,
            "add_only": True,
        },
        "engines": [{
            "name": "vf",
            "path": "/verif/vf",
            "serves_properties": [c["property_id"] for c in checks],
            "kind_free_text": "runtime monitoring: sharded workload driver (vf/run.py, vf/shard.py), recording monitors, "
                              "executable reference models (vf/refs), sys.monitoring reach probe, icontract contracts",
        }],
        "checks": checks,
        "notes": "exit 0 held / 1 VIOLATION / 2 INCONCLUSIVE (internal harness error, watchdog, or a deciding monitor that observed nothing). "
                 "Known findings: /verif/known_findings.json (mechanism-keyed; open: C01 column-name collision and big-integer metric values next to float metrics, C04 adjacent-float scores, C09 duplicate "
                 "multiplier vectors when a group is absent from an event, C15 rank-deficient block with centring round-off above lstsq's cut-off, C19 "
                 "EG nu overwritten / CorrelationRemover refit with another width). 21 genuine defects were repaired by 'fix:' commits in /repo "
                 "(DESIGN.md section 5). Detection record: selftest/results.json (mutants) and seeded/*/meta.json (176 independently seeded "
                 "changes), summarised in DESIGN.md section 8. C16 covers the PyTorch engine only (TensorFlow is not installed).",
        "not_applicable": na,
    }
    json.dump(man, open(os.path.join(HERE, "MANIFEST.json"), "w"), indent=1)
    import jsonschema
    jsonschema.validate(man, json.load(open("/root/.vp/MANIFEST.schema.json")))
    print("MANIFEST.json: %d checks, %d not_applicable" % (len(checks), len(na)))


main()
