#!/venv/bin/python
"""Regenerates /verif/MANIFEST.json from the table below (kept in one place so it stays valid)."""
import json
import os
import subprocess

HERE = os.path.dirname(os.path.dirname(os.path.abspath(__file__)))

# id -> (technique, level text, level note, design ref)
CHECKS = {
    "C01": ("runtime monitor: recording metric on id-valued data (unambiguous history) + row-partition reference model",
            "Exploration: every by_group/overall cell of generated MetricFrames is traced back, through a recording metric "
            "fairlearn itself invokes, to the exact rows and parameter slices it was computed from and compared with a "
            "pure-python partition of the rows; index compared as a set with the observed values / their product.",
            "Holds on the generated layouts only (n<=40, <=3 sensitive x <=2 control features, one value type per column, "
            "no NaN feature values); trusted: pandas/numpy, the reference partition.", "3/C01"),
    "C02": ("runtime monitor: public aggregate methods vs executable reference algebra on prescribed tables + icontract postcondition",
            "Exploration: arbitrary by_group/overall tables are forced through a table metric and every aggregate "
            "(group_min/max, difference, ratio x method x errors x callable/dict x control features) is compared with "
            "the stated formula; stated inequalities asserted on every frame.",
            "Scalar metrics only; IEEE NaN policy for 0/0; trusted: reference algebra in refs/rates.py.", "3/C02"),
    "C03": ("runtime oracle: first-principles row-counting reference vs the named/generated fairness metrics, exhaustive small datasets + random weighted",
            "Exploration with an exhaustive sub-space: all datasets (labels, predictions, set partition into groups) up to "
            "n=3 (quick) / n=4 (thorough) rows and sampled larger/weighted ones; every named function x method x agg and "
            "every generated metric compared with values computed from the rows.",
            "Binary {0,1} labels, positive weights; sklearn base metrics are trusted on the per-group slices; 0/0 ratios "
            "may be NaN or skipped.", "3/C03"),
    "C14": ("runtime oracle: weighted confusion counting reference vs the seven base metrics over all encodings, exhaustive small vectors + random weighted",
            "Exploration with an exhaustive sub-space: all label/prediction vectors up to length 4 (quick) / 6 (thorough) "
            "under 10 encodings, plus random weighted vectors; value, scalar-ness, range, complement identities and "
            "pos_label role exchange are checked on every call.",
            "Positive finite weights; at most two label values; trusted: the counting reference.", "3/C14"),
}

PENDING_REASON = "check not built yet in this round (work in progress; the design in DESIGN.md section 3 applies)"


def main():
    props = [json.loads(l) for l in open(os.path.join(HERE, "properties.jsonl"))]
    checks, na = [], []
    for p in props:
        pid = p["id"]
        if pid in CHECKS and os.path.exists(os.path.join(HERE, "vf", "props", pid + ".py")):
            tech, text, note, ref = CHECKS[pid]
            checks.append({
                "property_id": pid,
                "quick_cmd": "./check %s quick" % pid,
                "thorough_cmd": "./check %s thorough" % pid,
                "evidence_file": "/verif/evidence/%s.json" % pid,
                "replay_cmd_template": "./check %s quick --replay {path}" % pid,
                "engine": "vf",
                "level_claimed": {"category": "exploration", "text": text, "design_ref": "DESIGN.md section " + ref},
                "level_note": note,
                "technique": tech,
            })
        else:
            na.append({"property_id": pid, "reason": PENDING_REASON})
    try:
        commits = subprocess.run(["git", "-C", "/repo", "log", "--format=%H %s"], capture_output=True, text=True).stdout.splitlines()
    except Exception:  # noqa: BLE001
        commits = []
    hook_commits = [c.split()[0] for c in commits if " hook:" in c or c.split(" ", 1)[1].startswith("hook:")]
    man = {
        "version": 1,
        "setup_cmd": "./setup.sh",
        "hooks": {
            "guard": "FAIRLEARN_VERIF",
            "enable": "no in-repo hooks are needed: monitors are user-supplied callables (metrics, base learners, torch modules, "
                      "callbacks, RandomState) and icontract wrappers attached from the harness; checks import fairlearn from "
                      "${VERIF_REPO:-/repo} via PYTHONPATH and export FAIRLEARN_VERIF=1 (unused by the repository)",
            "baseline_off_cmd": "cd /repo && env -u FAIRLEARN_VERIF /venv/bin/python -m pytest -ra -q -p no:cacheprovider --timeout=900 --continue-on-collection-errors",
            "source_commits": hook_commits,
            "add_only": True,
        },
        "engines": [{
            "name": "vf",
            "path": "/verif/vf",
            "serves_properties": [c["property_id"] for c in checks],
            "kind_free_text": "runtime monitoring: sharded workload driver (vf/run.py, vf/shard.py), recording monitors, "
                              "executable reference models (vf/refs), sys.monitoring reach probe, icontract contracts",
        }],
        "checks": checks,
        "notes": "exit 0 held / 1 VIOLATION / 2 INCONCLUSIVE. Known findings: /verif/known_findings.json (mechanism-keyed).",
        "not_applicable": na,
    }
    json.dump(man, open(os.path.join(HERE, "MANIFEST.json"), "w"), indent=1)
    import jsonschema
    jsonschema.validate(man, json.load(open("/root/.vp/MANIFEST.schema.json")))
    print("MANIFEST.json: %d checks, %d not_applicable" % (len(checks), len(na)))


main()
