#!/bin/bash
# Runs every check's thorough tier in /verif against /repo and keeps the evidence under evidence_thorough/
# (the registered evidence files under evidence/ are those of the quick tier, which `vp check` reproduces).
cd "$(dirname "$0")/.."
mkdir -p evidence_thorough
for p in ${@:-C01 C02 C03 C04 C05 C06 C07 C08 C09 C10 C11 C12 C13 C14 C15 C16 C17 C18 C19 C20}; do
  out=$(VERIF_SEED=${VERIF_SEED:-0} VERIF_EVIDENCE_DIR=$PWD/evidence_thorough ./check $p thorough 2>&1); rc=$?
  echo "$(date -u +%FT%TZ) $p rc=$rc :: $(echo "$out" | head -1 | cut -c1-300)" >> evidence_thorough/summary.txt
  echo "$out" | grep -E "^(VIOLATION|  mechanism|INCONCLUSIVE|KNOWN-FINDING)" | cut -c1-600 >> evidence_thorough/summary.txt
done
