#!/venv/bin/python
"""Re-run the registered checks against every filed seeded change (/verif/seeded/<name>/patch.diff) on a scratch copy
of /repo's working tree and refresh meta.json['checks'].  usage: seed_recheck.py [name ...] [--tier quick]"""
import json, os, shutil, subprocess, sys, tempfile, time

VERIF = os.path.dirname(os.path.dirname(os.path.abspath(__file__)))


def main():
    args = [a for a in sys.argv[1:] if not a.startswith("--")]
    tier = sys.argv[sys.argv.index("--tier") + 1] if "--tier" in sys.argv else "quick"
    if "--tier" in sys.argv:
        args = [a for a in args if a != tier]
    names = args or sorted(os.listdir(os.path.join(VERIF, "seeded")))
    for name in names:
        d = os.path.join(VERIF, "seeded", name)
        meta = json.load(open(os.path.join(d, "meta.json")))
        scratch = tempfile.mkdtemp(prefix="vf_seed_")
        try:
            shutil.copytree("/repo/fairlearn", os.path.join(scratch, "fairlearn"), ignore=shutil.ignore_patterns("__pycache__"))
            p = subprocess.run(["patch", "-p1", "-s", "-i", os.path.join(d, "patch.diff")], cwd=scratch, capture_output=True, text=True)
            if p.returncode != 0:
                print("%-8s patch does not apply to the current tree: %s" % (name, (p.stdout + p.stderr)[:200]))
                meta["applies_to_current_tree"] = False
                json.dump(meta, open(os.path.join(d, "meta.json"), "w"), indent=1)
                continue
            meta["applies_to_current_tree"] = True
            for c in list(meta.get("checks", {meta["property"]: {}})):
                env = dict(os.environ, VERIF_REPO=scratch, VERIF_EVIDENCE_DIR=os.path.join(scratch, "_ev"), VERIF_REPLAY_DIR=os.path.join(scratch, "_rp"))
                t0 = time.time()
                r = subprocess.run([os.path.join(VERIF, "check"), c, tier], cwd=VERIF, env=env, capture_output=True, text=True)
                lines = [l for l in r.stdout.splitlines() if l.startswith(("VIOLATION", "  mechanism", "INCONCLUSIVE"))][:3]
                st = {1: "caught", 0: "MISSED", 2: "inconclusive"}.get(r.returncode, str(r.returncode))
                meta.setdefault("checks", {})[c] = {tier + "_exit": r.returncode, "status": st, "wall_s": round(time.time() - t0, 1), "lines": [l[:300] for l in lines]}
                print("%-8s %-4s %-12s %5.1fs %s" % (name, c, st, time.time() - t0, (lines[1] if len(lines) > 1 else "")[:140]))
            meta["rechecked_at"] = time.strftime("%Y-%m-%dT%H:%M:%SZ", time.gmtime())
            json.dump(meta, open(os.path.join(d, "meta.json"), "w"), indent=1)
        finally:
            shutil.rmtree(scratch, ignore_errors=True)


main()
