#!/venv/bin/python
"""Confirm a seeded change produced by a sub-agent and file it under /verif/seeded/<name>/.

usage: seed_verify.py <prop> <label> <src_dir> [--tests dir,dir] [--no-tests] [--checks C01,C02]
  <src_dir> holds <label>.diff, <label>_demo.py, <label>.md   (label = A or B)
Steps (all in a scratch git worktree of /repo under /tmp, removed afterwards):
  1. demo on the clean tree must exit 0;  2. git apply the diff;  3. demo must exit 1;
  4. related test directories: the set of passing tests must not shrink vs the clean tree;
  5. the registered checks of the property are run against the patched copy (VERIF_REPO) -> caught/missed.
Writes patch.diff, demo.py, notes.md, meta.json."""
import json, os, re, shutil, subprocess, sys, tempfile, time, xml.etree.ElementTree as ET

VERIF = os.path.dirname(os.path.dirname(os.path.abspath(__file__)))
CACHE = "/tmp/sv_cache"


def sh(cmd, cwd=None, env=None, timeout=3600):
    p = subprocess.run(cmd, cwd=cwd, env=env, stdout=subprocess.PIPE, stderr=subprocess.STDOUT, text=True, timeout=timeout)
    return p.returncode, p.stdout


def test_passes(wt, tdir, tag):
    junit = os.path.join(tempfile.gettempdir(), "sv_junit_%s_%d.xml" % (tag, os.getpid()))
    env = dict(os.environ, OMP_NUM_THREADS="2")
    sh(["/venv/bin/python", "-m", "pytest", "-q", "-p", "no:cacheprovider", "--timeout=900", "--continue-on-collection-errors",
        "--junitxml=" + junit, tdir], cwd=wt, env=env, timeout=5400)
    passed = set()
    if os.path.exists(junit):
        for tc in ET.parse(junit).getroot().iter("testcase"):
            if not any(ch.tag in ("failure", "error", "skipped") for ch in tc):
                passed.add(re.sub(r"0x[0-9a-f]+", "0x", "%s::%s" % (tc.get("classname"), tc.get("name"))))
        os.remove(junit)
    return passed


def related_tests(diff_text):
    dirs = set()
    for line in diff_text.splitlines():
        if line.startswith("+++ b/fairlearn/"):
            f = line[len("+++ b/fairlearn/"):]
            top = f.split("/")[0]
            if top == "metrics":
                dirs.add("test/unit/metrics")
            elif top == "reductions":
                dirs.add("test/unit/reductions")
            elif top == "postprocessing":
                dirs.add("test/unit/postprocessing")
            elif top == "preprocessing":
                dirs.add("test/unit/preprocessing")
            elif top == "adversarial":
                dirs.add("test/unit/adversarial")
            elif top == "utils":
                dirs.update(["test/unit/utils", "test/unit/postprocessing", "test/unit/metrics", "test/unit/reductions/moments",
                             "test/unit/reductions/grid_search"])
    return sorted(dirs)


def main():
    prop, label, src = sys.argv[1:4]
    args = sys.argv[4:]
    checks = args[args.index("--checks") + 1].split(",") if "--checks" in args else [prop]
    diff = open(os.path.join(src, label + ".diff")).read()
    tests = [] if "--no-tests" in args else (args[args.index("--tests") + 1].split(",") if "--tests" in args else related_tests(diff))
    name = "%s-%s" % (prop, label)
    out = os.path.join(VERIF, "seeded", name)
    wt = tempfile.mkdtemp(prefix="sv_%s_" % name)
    os.rmdir(wt)
    meta = {"property": prop, "name": name, "ran": [], "at": time.strftime("%Y-%m-%dT%H:%M:%SZ", time.gmtime())}
    rc, o = sh(["git", "-C", "/repo", "worktree", "add", "--detach", "-q", wt, "HEAD"])
    assert rc == 0, o
    try:
        meta["repo_head"] = sh(["git", "-C", "/repo", "rev-parse", "HEAD"])[1].strip()
        os.makedirs(os.path.join(wt, "_out"), exist_ok=True)
        shutil.copy(os.path.join(src, label + "_demo.py"), os.path.join(wt, "_out", label + "_demo.py"))
        env = dict(os.environ, OMP_NUM_THREADS="2", PYTHONPATH=wt)
        rc0, o0 = sh(["/venv/bin/python", "_out/%s_demo.py" % label], cwd=wt, env=env, timeout=1800)
        meta["demo_clean_exit"] = rc0
        os.makedirs(CACHE, exist_ok=True)
        clean = {}
        for t in tests:
            cpath = os.path.join(CACHE, meta["repo_head"][:10] + "_" + t.replace("/", "_") + ".json")
            if os.path.exists(cpath):
                clean[t] = set(json.load(open(cpath)))
            else:
                clean[t] = test_passes(wt, t, "clean")
                json.dump(sorted(clean[t]), open(cpath, "w"))
        rc, o = sh(["git", "apply", "--whitespace=nowarn", os.path.join(src, label + ".diff")], cwd=wt)
        meta["patch_applies"] = (rc == 0)
        if rc != 0:
            print(o)
        rc1, o1 = sh(["/venv/bin/python", "_out/%s_demo.py" % label], cwd=wt, env=env, timeout=1800)
        meta["demo_patched_exit"] = rc1
        meta["demo_patched_tail"] = o1[-600:]
        lost_all = []
        for t in tests:
            now = test_passes(wt, t, "patched")
            lost = sorted(clean[t] - now)
            meta["ran"].append({"tests": t, "clean_pass": len(clean[t]), "patched_pass": len(now), "lost": lost[:10]})
            lost_all += lost
        meta["tests_still_pass"] = (not lost_all) if tests else None
        # my checks against the patched copy
        meta["checks"] = {}
        for c in checks:
            cenv = dict(os.environ, VERIF_REPO=wt, VERIF_EVIDENCE_DIR=os.path.join(wt, "_evidence"), VERIF_REPLAY_DIR=os.path.join(wt, "_replays"))
            t0 = time.time()
            rc, o = sh([os.path.join(VERIF, "check"), c, "quick"], cwd=VERIF, env=cenv, timeout=3600)
            lines = [l for l in o.splitlines() if l.startswith(("VIOLATION", "  mechanism", "INCONCLUSIVE"))][:3]
            meta["checks"][c] = {"quick_exit": rc, "status": {1: "caught", 0: "MISSED", 2: "inconclusive"}.get(rc, str(rc)),
                                 "wall_s": round(time.time() - t0, 1), "lines": [l[:300] for l in lines]}
        ok = meta["demo_clean_exit"] == 0 and meta["demo_patched_exit"] == 1 and meta["patch_applies"] and meta["tests_still_pass"] is not False
        meta["confirmed"] = bool(ok)
        if ok:
            os.makedirs(out, exist_ok=True)
            shutil.copy(os.path.join(src, label + ".diff"), os.path.join(out, "patch.diff"))
            shutil.copy(os.path.join(src, label + "_demo.py"), os.path.join(out, "demo.py"))
            if os.path.exists(os.path.join(src, label + ".md")):
                shutil.copy(os.path.join(src, label + ".md"), os.path.join(out, "notes.md"))
                meta["needs_to_manifest"] = open(os.path.join(src, label + ".md")).read()[:1500]
            json.dump(meta, open(os.path.join(out, "meta.json"), "w"), indent=1)
        print(json.dumps({k: meta[k] for k in ("name", "confirmed", "demo_clean_exit", "demo_patched_exit", "tests_still_pass", "checks")}, indent=1))
        if not ok:
            print("NOT CONFIRMED", json.dumps(meta, indent=1)[:3000])
    finally:
        sh(["git", "-C", "/repo", "worktree", "remove", "--force", wt])
        shutil.rmtree(wt, ignore_errors=True)


main()
