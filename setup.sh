#!/bin/bash
# Idempotent, offline: puts icontract + deal beside the repository's interpreter (target dir, not /venv).
set -e
HERE="$(cd "$(dirname "${BASH_SOURCE[0]}")" && pwd)"
if [ ! -f "$HERE/.deps/.ok" ]; then
  mkdir -p "$HERE/.deps"
  PIP_NO_INDEX=1 /venv/bin/pip install --quiet --no-index --find-links /opt/veriftools/wheels \
      --target "$HERE/.deps" icontract deal >/dev/null
  touch "$HERE/.deps/.ok"
fi
mkdir -p "$HERE/evidence" "$HERE/replays"
